#!/usr/bin/python3
"""Re-run the quick checks against every kept seeded change (after rule changes) and refresh `checks_fired_quick` /
`caught_by_target_check` in seeded/<ID>-<X>/meta.json.  The confirmation of the change itself (suite passes, demo fails)
is not repeated: the patch and the tree are unchanged.

usage: seed_recheck.py [-j N] [filter ...]"""
import concurrent.futures
import glob
import json
import os
import shutil
import subprocess
import sys
import tempfile

args = sys.argv[1:]
jobs = 4
if "-j" in args:
    i = args.index("-j")
    jobs = int(args[i + 1])
    del args[i:i + 2]
IDS = ["C%02d" % i for i in range(1, 15)]
# VERIF_ONLY=C01,C05: re-run only these checks (the ones whose rules changed); the recorded verdicts of the others are kept
ONLY = [c for c in os.environ.get("VERIF_ONLY", "").split(",") if c]


def one(d):
    name = os.path.basename(d)
    meta = json.load(open(os.path.join(d, "meta.json")))
    S = tempfile.mkdtemp(prefix="verif-seed-")
    fired = {}
    try:
        subprocess.check_call(["rsync", "-a", "--exclude", "target", "--exclude", ".git", "/repo/", S + "/repo/"])
        rc = subprocess.run("git apply --directory=. %s" % os.path.join(d, "patch.diff"), shell=True, cwd=S + "/repo").returncode
        if rc != 0:
            rc = subprocess.run("patch -p1 -s < %s" % os.path.join(d, "patch.diff"), shell=True, cwd=S + "/repo").returncode
        if rc != 0:
            return name, "PATCH DOES NOT APPLY", {}
        env = dict(os.environ, VERIF_REPO=S + "/repo", VERIF_EVIDENCE_DIR=S + "/ev")
        only = ONLY
        if os.environ.get("VERIF_TARGET_ONLY"):
            # quick regression: every seed against the check of the property it was written for; the other verdicts are kept
            only = [meta["property"]]
        if only:
            fired = {k: v for k, v in (meta.get("checks_fired_quick") or {}).items() if k not in only}
        for pid in (only or IDS):
            q = subprocess.run(["/verif/check", pid, "quick"], env=env, stdout=subprocess.PIPE, stderr=subprocess.STDOUT, text=True)
            if q.returncode != 0:
                fired[pid] = [l.strip()[:500] for l in q.stdout.split("\n") if l.startswith("  rule")][:2]
    finally:
        shutil.rmtree(S, ignore_errors=True)
    fired = {k: fired[k] for k in sorted(fired)}
    meta["checks_fired_quick"] = fired
    meta["caught_by_target_check"] = meta["property"] in fired
    json.dump(meta, open(os.path.join(d, "meta.json"), "w"), indent=1)
    return name, "caught" if meta["caught_by_target_check"] else "MISSED by %s (fired: %s)" % (meta["property"], sorted(fired)), fired


dirs = sorted(d for d in glob.glob("/verif/seeded/C*-*") if os.path.isdir(d) and (not args or any(a in d for a in args)))
bad = 0
with concurrent.futures.ThreadPoolExecutor(max_workers=jobs) as ex:
    for name, verdict, fired in ex.map(one, dirs):
        print("%-8s %-50s also: %s" % (name, verdict, sorted(k for k in fired if k != name.split("-")[0])))
        sys.stdout.flush()
        if not verdict.startswith("caught"):
            bad += 1
print("%d seeded changes, %d not caught by their target check" % (len(dirs), bad))
