#!/usr/bin/python3
"""Run all quick checks against behaviour-preserving refactorings delivered by sub-agents.
usage: [ROUND=R2] refactor_eval.py <NAME> <WT>   (reads /tmp/wt-out/$ROUND/<NAME>/R*.patch.diff, ROUND defaults to R, worktree /tmp/wt/<WT> for the suite)
Every check must stay silent; results go to /verif/selftest/refactors/<NAME>-<Rk>/{patch.diff,meta.json}."""
import glob
import json
import os
import shutil
import subprocess
import sys
import tempfile

NAME, WT = sys.argv[1], sys.argv[2]
ROUND = os.environ.get("ROUND", "R")
out = "/tmp/wt-out/%s/%s" % (ROUND, NAME)
wt = "/tmp/wt/%s" % WT
env = dict(os.environ, CARGO_NET_OFFLINE="true")
for patch in sorted(glob.glob(out + "/R*.patch.diff")):
    X = os.path.basename(patch).split(".")[0]
    meta_in = {}
    try:
        meta_in = json.load(open(os.path.join(out, X + ".meta.json")))
    except Exception:
        pass
    d_prev = "/verif/selftest/refactors/%s-%s%s/meta.json" % (NAME, "" if ROUND == "R" else ROUND.lower() + "-", X)
    if os.environ.get("SKIP_SUITE") and os.path.exists(d_prev):
        # re-evaluation after rule changes: the patch and the tree are unchanged, the suite result is kept
        suite_ok = json.load(open(d_prev)).get("suite_passes")
    else:
        subprocess.run("git checkout -q -- . ", shell=True, cwd=wt)
        rc = subprocess.run("git apply %s" % patch, shell=True, cwd=wt).returncode
        p = subprocess.run("cargo test --workspace --offline 2>&1 | grep -E '^test result|FAILED|^error'", shell=True, cwd=wt, env=env, stdout=subprocess.PIPE, text=True)
        suite_ok = rc == 0 and "FAILED" not in p.stdout and "error" not in p.stdout and p.stdout.count("test result: ok") >= 3
        subprocess.run("git checkout -q -- . ", shell=True, cwd=wt)
    S = tempfile.mkdtemp(prefix="verif-ref-")
    fired = {}
    try:
        subprocess.check_call(["rsync", "-a", "--exclude", "target", "--exclude", ".git", "/repo/", S + "/repo/"])
        subprocess.check_call("cd %s/repo && patch -p1 -s < %s" % (S, patch), shell=True)
        cenv = dict(os.environ, VERIF_REPO=S + "/repo", VERIF_EVIDENCE_DIR=S + "/evidence")
        for pid in ["C%02d" % i for i in range(1, 15)]:
            q = subprocess.run(["/verif/check", pid, "quick"], env=cenv, stdout=subprocess.PIPE, stderr=subprocess.STDOUT, text=True)
            if q.returncode != 0:
                fired[pid] = [l.strip()[:500] for l in q.stdout.split("\n") if l.startswith("  rule")][:4]
    finally:
        shutil.rmtree(S, ignore_errors=True)
    d = "/verif/selftest/refactors/%s-%s%s" % (NAME, "" if ROUND == "R" else ROUND.lower() + "-", X)
    os.makedirs(d, exist_ok=True)
    shutil.copy(patch, os.path.join(d, "patch.diff"))
    json.dump({"region": NAME, "summary": meta_in.get("summary"), "why_equivalent": meta_in.get("why_equivalent"),
               "author": "independent sub-agent asked for behaviour-preserving refactorings", "suite_passes": suite_ok,
               "checks_that_fired": fired}, open(os.path.join(d, "meta.json"), "w"), indent=1)
    print(NAME, X, "suite:%s" % ("pass" if suite_ok else "FAIL"), "silent" if not fired else "ALARM %s" % sorted(fired))
    for k, v in fired.items():
        for l in v[:2]:
            print("      ", k, l[:300])
    sys.stdout.flush()
