#!/bin/bash
# usage: selftest/mutate.sh <name> <property ids...> -- then reads a python edit script on stdin:
#   lines of:  FILE<TAB>OLD<TAB>NEW   (literal replacement, exactly one occurrence required; \n allowed)
# Applies the edit to a scratch copy of /repo (outside /repo and /verif), optionally runs the repo tests there,
# runs the named checks against the copy and removes the copy.
set -u
name=$1; shift
props=()
while [ $# -gt 0 ] && [ "$1" != "--" ]; do props+=("$1"); shift; done
S=$(mktemp -d /tmp/verif-mut-XXXXXX)
trap 'rm -rf "$S"' EXIT
rsync -a --exclude target --exclude .git /repo/ "$S/repo/"
/usr/bin/python3 - "$S/repo" <<'PY' || { echo "MUTATION-FAILED $name"; exit 3; }
import sys, os
root = sys.argv[1]
spec = open('/dev/fd/3').read() if False else os.environ.get('MUT_SPEC', '')
ok = True
for line in spec.split('\n'):
    if not line.strip():
        continue
    f, old, new = line.split('\t')
    old = old.encode().decode('unicode_escape'); new = new.encode().decode('unicode_escape')
    p = os.path.join(root, f)
    s = open(p).read()
    if s.count(old) != 1:
        print('edit does not apply exactly once (%d): %r' % (s.count(old), old)); ok = False; continue
    open(p, 'w').write(s.replace(old, new))
sys.exit(0 if ok else 1)
PY
if [ "${MUT_TESTS:-0}" = 1 ]; then
  (cd "$S/repo" && CARGO_NET_OFFLINE=true CARGO_TARGET_DIR="$S/target" cargo test --workspace --offline 2>&1 | grep -E "^test result|error(\[|:)|FAILED|panicked" | head -20)
fi
export VERIF_REPO="$S/repo" VERIF_EVIDENCE_DIR="$S/evidence"
for p in "${props[@]}"; do
  out=$(/verif/check "$p" "${MUT_TIER:-quick}" 2>&1); rc=$?
  echo "== $name / $p: rc=$rc"
  echo "$out" | grep -E "^(VIOLATION|  rule|KNOWN)" | head -${MUT_LINES:-6}
done
