"""Self-test catalogue: mutants (must compile, pass the 85 tests, and be reported by the named checks) and
behaviour-preserving refactors (every named check must stay silent).  Edits are literal replacements
(file, old, new) applied to a scratch copy of /repo."""

I = "microscpi/src/interface.rs"
P = "microscpi/src/parser.rs"
R = "microscpi/src/response.rs"
V = "microscpi/src/value.rs"
T = "microscpi/src/tree.rs"
Q = "microscpi/src/error_queue.rs"
C = "microscpi/src/commands.rs"
E = "microscpi/src/error.rs"
L = "microscpi/src/lib.rs"
ML = "microscpi-macros/src/lib.rs"
MT = "microscpi-macros/src/tree.rs"
MC = "microscpi-macros/src/command.rs"

MUTANTS = [
    # name, checks expected to fire, [(file, old, new)]
    ("c01-short-uppercase-only", ["C01", "C11"], [(MC, "filter(|c| !c.is_lowercase())", "filter(|c| c.is_uppercase())")]),
    ("c01-child-prefix", ["C01", "C11"], [(T, "if child.0.eq_ignore_ascii_case(name) {", "if child.0.len() <= name.len() && child.0.eq_ignore_ascii_case(&name[..child.0.len()]) {")]),
    ("c01-child-case-sensitive", ["C01", "C11"], [(T, "if child.0.eq_ignore_ascii_case(name) {", "if child.0 == name {")]),
    ("c01-walk-unwrap_or", ["C01"], [(P, "            node = node.child(name).ok_or(Error::UndefinedHeader)?;\n            input = i;", "            node = node.child(name).unwrap_or(node);\n            input = i;")]),
    ("c01-slots-swapped", ["C01"], [(MT, "                    node.query = Some(cmd)", "                    node.command = Some(cmd)")]),
    ("c01-std-commands-always", ["C01"], [(ML, "    if config.standard_commands {", "    if true {")]),
    ("c02-no-reset-on-terminator", ["C02"], [(I, "                if call.terminated {\n                    // Reset the header to the root node if a call is ended with a terminator.\n                    header = self.root_node();\n                }\n                else if let", "                if let")]),
    ("c02-F3-reverted", ["C02"], [(I, "            else {\n                // An empty program message unit consumed a message terminator, which also\n                // resets the header to the root node.\n                header = self.root_node();\n            }\n", "")]),
    ("c02-F4-reverted", ["C02"], [(P, "        if root_command.is_some() {\n            header = root;\n        }\n        let mut node = header;", "        let mut node = if root_command.is_some() { root } else { header };")]),
    ("c02-common-updates-path", ["C02"], [(P, "        Ok((i2, (node, None)))", "        Ok((i2, (node, Some(root))))")]),
    ("c03-arity-lt", ["C03", "C06"], [(ML, "                if args.len() != #arg_count {", "                if args.len() < #arg_count {")]),
    ("c03-radix-octal-as-decimal", ["C03"], [(V, "<$type>::from_str_radix(data, 8)", "<$type>::from_str_radix(data, 10)")]),
    ("c03-parse-wide-then-cast", ["C03"], [(V, "                        <$type>::from_str_radix(data, 10).or(Err(Error::NumericDataError))", "                        i128::from_str_radix(data, 10).map(|v| v as $type).or(Err(Error::NumericDataError))")]),
    ("c03-push-result-dropped", ["C03"], [(P, "            args.push(arg)\n                .or(Err(Error::UnexpectedNumberOfParameters))?;", "            args.push(arg).ok();")]),
    ("c04-nan-sentinel", ["C04"], [(R, "            f.write_str(\"9.91E+37\").await\n        }\n        else if self.is_infinite() {\n            if self.is_sign_negative() {\n                f.write_str(\"-9.9E+37\").await\n            }\n            else {\n                f.write_str(\"9.9E+37\").await\n            }\n        }\n        else {\n            write!(f, \"{self}\").await\n        }\n    }\n}\n\nimpl Response for f64", "            f.write_str(\"9.9E+37\").await\n        }\n        else if self.is_infinite() {\n            if self.is_sign_negative() {\n                f.write_str(\"-9.9E+37\").await\n            }\n            else {\n                f.write_str(\"9.9E+37\").await\n            }\n        }\n        else {\n            write!(f, \"{self}\").await\n        }\n    }\n}\n\nimpl Response for f64")]),
    ("c04-flush-dropped", ["C04"], [(I, "                response.flush().await?;\n", "")]),
    ("c04-newline-on-commands", ["C04"], [(I, "            if call.query {\n                response.write_char", "            if true {\n                response.write_char")]),
    ("c04-F2-reverted", ["C04"], [(R, "        write_string(f, self).await", "        write!(f, \"\\\"{self}\\\"\").await")]),
    ("c04-quote-doubling-dropped", ["C04"], [(R, "        if i > 0 {\n            f.write_str(\"\\\"\\\"\").await?;\n        }\n        f.write_str(part).await?;", "        f.write_str(part).await?;")]),
    ("c05-F1-reverted", ["C05", "C04"], [(ML, "result.write_response(response).await?;", "result.write_response(response).await.unwrap();")]),
    ("c05-block-guard-dropped", ["C05"], [(P, "    if i2.len() < digits {\n        return Err(ParseError::Incomplete);\n    }\n", "")]),
    ("c05-span-off-by-one", ["C05"], [(P, "    let (i2, res) = take_while(|c| c.is_ascii_digit())(i1)?;\n    Ok((i2, &input[..res.len() + 1]))", "    let (i2, res) = take_while(|c| c.is_ascii_digit())(i1)?;\n    Ok((i2, &input[..res.len() + 2]))")]),
    ("c05-overflow-test-gt", ["C05", "C07"], [(I, "if read_offset >= cmd_buf.len() {", "if read_offset > cmd_buf.len() {")]),
    ("c05-scan-no-progress", ["C05", "C07"], [(I, "                    proc_offset = terminator_pos + 1;\n                    read_offset = proc_offset;", "                    proc_offset = terminator_pos;\n                    read_offset = proc_offset;")]),
    ("c05-later-push-unwrapped", ["C05"], [(P, "            args.push(arg)\n                .or(Err(Error::UnexpectedNumberOfParameters))?;", "            args.push(arg).unwrap();")]),
    ("c06-F5-reverted", ["C06"], [(I, "                match input.iter().position(|&byte| byte == b'\\n') {\n                    Some(pos) => {\n                        input = &input[pos + 1..];\n                        header = self.root_node();\n                        continue;\n                    }\n                    // The faulty message is not terminated yet.\n                    None => return input,\n                }", "                return input;")]),
    ("c06-double-report", ["C06"], [(I, "                    self.handle_error(error);\n                }", "                    self.handle_error(error);\n                    self.handle_error(error);\n                }")]),
    ("c07-F7-reverted", ["C07"], [(I, "            if proc_offset > 0 {\n                cmd_buf.copy_within(proc_offset..read_end, 0);\n                read_offset -= proc_offset;\n                proc_offset = 0;\n            }\n\n            // Ensure `read_from` does not exceed the buffer length\n            if read_offset >= cmd_buf.len() {\n                #[cfg(feature = \"defmt\")]\n                defmt::warn!(\"SCPI buffer overflow, resetting buffer\");\n                read_offset = 0;\n            }", "            if read_offset >= cmd_buf.len() {\n                read_offset = 0;\n                proc_offset = 0;\n            }\n            else if proc_offset > 0 {\n                cmd_buf.copy_within(proc_offset..read_end, 0);\n                read_offset -= proc_offset;\n                proc_offset = 0;\n            }")]),
    ("c07-scan-from-zero", ["C07"], [(I, "cmd_buf[read_offset..read_end]\n", "cmd_buf[0..read_end]\n")]),
    ("c07-no-offset-fixup", ["C07"], [(I, "                read_offset -= proc_offset;\n", "")]),
    ("c08-string-class-excludes-newline", ["C08"], [(P, "take_while(|c| c != b'\\'')", "take_while(|c| c != b'\\'' && c != b'\\n')")]),
    ("c08-F6-reverted", ["C08", "C12"], [(P, ".or_else(|e| e.or_try(|| double_quoted_string_program_data(input)))", ".or_else(|_| double_quoted_string_program_data(input))")]),
    ("c09-lifo", ["C09"], [(Q, "self.0.pop_front()", "self.0.pop_back()")]),
    ("c09-overflow-overwrites-oldest", ["C09"], [(Q, "self.0.back_mut()", "self.0.front_mut()")]),
    ("c09-wrong-overflow-code", ["C09"], [(Q, "*value = Error::QueueOverflow;", "*value = Error::OutOfMemory;")]),
    ("c09-number-table", ["C09"], [(E, "Error::DataOutOfRange => -222,", "Error::DataOutOfRange => -223,")]),
    ("c10-flush-dropped", ["C10"], [(I, "                    adapter.flush().await?;\n", "")]),
    ("c10-let-underscore-write", ["C10"], [(I, "adapter.write(&res_buf).await?;", "let _ = adapter.write(&res_buf).await;")]),
    ("c10-return-ok-on-zero-read", ["C10"], [(I, "let count = adapter.read(&mut cmd_buf[read_offset..]).await?;", "let count = adapter.read(&mut cmd_buf[read_offset..]).await?; if count == 0 { return Ok(()); }")]),
    ("c11-whitespace-class", ["C11"], [(P, "matches!(input, 0u8..=9u8 | 11u8..=32u8)", "matches!(input, 0u8..=9u8 | 11u8..=31u8)")]),
    ("c11-ws-before-terminator-dropped", ["C11"], [(P, "    // Skip optional whitespace\n    let (input, _) = optional(whitespace)(input)?;\n\n    let (input, terminated)", "    let (input, terminated)")]),
    ("c11-hex-letter-upper-only", ["C11"], [(P, "satisfy(|c| c == b'H' || c == b'h')", "satisfy(|c| c == b'H')")]),
    ("c12-incomplete-from-non-eoi", ["C12"], [(P, "        Some(_) => Err(Error::InvalidCharacter)?,\n        None => Err(ParseError::Incomplete),", "        Some(b'!') => Err(ParseError::Incomplete),\n        Some(_) => Err(Error::InvalidCharacter)?,\n        None => Err(ParseError::Incomplete),")]),
    ("c13-alloc-in-shared-code", ["C13"], [(L, "mod commands;", "extern crate alloc;\nmod commands;"), (R, "        f.write_str(\"#10\").await", "        f.write_str(&alloc::format!(\"#1{}\", 0)).await")]),
    ("c13-no_std-gate-removed", ["C13"], [(L, "#![cfg_attr(not(any(test, feature = \"std\")), no_std)]", "")]),
    ("c14-occupied-check-dropped", ["C14"], [(MT, "                if let Some(_existing) = &node.query {\n                    return Err(Error::QueryExists);\n                }\n                else {\n                    node.query = Some(cmd)\n                }", "                node.query = Some(cmd)")]),
    ("c14-insert-result-dropped", ["C14"], [(ML, "    commands\n        .iter()\n        .try_for_each(|cmd| tree.insert(cmd.clone()))\n        .unwrap();", "    let _ = commands\n        .iter()\n        .try_for_each(|cmd| tree.insert(cmd.clone()));")]),
    ("c14-first-path-only", ["C14", "C01"], [(MT, "            .paths()\n            .iter()", "            .paths()\n            .iter()\n            .take(1)")]),
]

MUTANTS += [
    # --- second batch: one mutant per rule that the first batch did not exercise
    ("c04-writer-char-truncates-silently", ["C04"], [(R, "        self.push(c as u8).or(Err(Error::TooMuchData))?;", "        let _ = self.push(c as u8);")]),
    ("c05-bounded-writer-unwrap", ["C05"], [(R, "        self.extend_from_slice(bytes).or(Err(Error::TooMuchData))?;\n        Ok(())\n    }\n\n    async fn write_char", "        self.extend_from_slice(bytes).unwrap();\n        Ok(())\n    }\n\n    async fn write_char")]),
    ("c05-run-returns-non-suffix", ["C05"], [(I, "        &[][..]\n    }", "        b\"\\n\"\n    }")]),
    ("c06-extra-state-across-messages", ["C06"], [(I, "        let mut header = self.root_node();\n", "        let mut header = self.root_node();\n        let mut failed = false;\n"),
                                           (I, "                    self.handle_error(error);\n                }", "                    if !failed {\n                        self.handle_error(error);\n                    }\n                    failed = true;\n                }")]),
    ("c06-execute-remaps-error", ["C06"], [(I, "            self.execute_command(command, &call.args, response).await?;", "            self.execute_command(command, &call.args, response).await.map_err(|_| Error::ExecutionError)?;")]),
    ("c08-close-quote-differs", ["C08"], [(P, "    let (i2, res) = take_while(|c| c != b'\"')(i1)?;\n    let (i3, _) = tag(b'\"')(i2)?;", "    let (i2, res) = take_while(|c| c != b'\"')(i1)?;\n    let (i3, _) = satisfy(|c| c == b'\"' || c == b'\\'')(i2)?;")]),
    ("c08-string-value-trimmed", ["C08"], [(P, "    let res = str::from_utf8(res)?;\n    Ok((i3, Value::String(res)))\n}\n\n/// Parses a double", "    let res = str::from_utf8(res)?.trim_end();\n    Ok((i3, Value::String(res)))\n}\n\n/// Parses a double")]),
    ("c08-block-scanned-for-newline", ["C08"], [(P, "        let value = &i3[..count];\n        let remaining = &i3[count..];", "        let (remaining, value) = take_while(|c| c != b'\\n')(i3)?;")]),
    ("c09-empty-queue-answer", ["C09"], [(C, "            Ok((0, \"\"))", "            Ok((0, \"No error\"))")]),
    ("c09-count-off-by-one", ["C09"], [(C, "        Ok(self.error_queue().error_count())", "        Ok(self.error_queue().error_count().saturating_sub(1))")]),
    ("c09-next-does-not-remove", ["C09"], [(Q, "        self.0.pop_front()", "        self.0.front().copied()")]),
    ("c10-error-mapped", ["C10"], [(I, "adapter.write(&res_buf).await?;", "adapter.write(&res_buf).await.or_else(|_| Ok(()))?;")]),
    ("c11-mnemonic-underscore-dropped", ["C11"], [(P, "take_while(|c| c.is_ascii_alphanumeric() || c == b'_')(i1)?", "take_while(|c| c.is_ascii_alphanumeric())(i1)?")]),
    ("c11-ws-after-comma-dropped", ["C11"], [(P, "    let (input, _) = tag(b',')(input).map_err(|_| Error::InvalidSeparator)?;\n    let (input, _) = optional(whitespace)(input)?;", "    let (input, _) = tag(b',')(input).map_err(|_| Error::InvalidSeparator)?;")]),
    ("c12-eoi-as-soft-error", ["C12"], [(P, "        None => Err(ParseError::Incomplete),\n    }\n}", "        None => Err(Error::InvalidCharacter)?,\n    }\n}")]),
    ("c12-string-close-optional", ["C12", "C08"], [(P, "    let (i2, res) = take_while(|c| c != b'\\'')(i1)?;\n    let (i3, _) = tag(b'\\'')(i2)?;", "    let (i2, res) = take_while(|c| c != b'\\'')(i1)?;\n    let (i3, _) = optional(tag(b'\\''))(i2)?;")]),
    ("c13-std-vec-in-shared-impl", ["C13"], [(L, "#[cfg(feature = \"std\")]\nextern crate std as core;", "extern crate std as core;")]),
    ("c14-children-keyed-by-prefix", ["C14", "C01"], [(MT, "                .entry(part.clone());", "                .entry(part.chars().take(4).collect());")]),
    ("c14-recursion-error-dropped", ["C14"], [(MT, "            self.insert_at(node_id, &path[1..], cmd)?;", "            let _ = self.insert_at(node_id, &path[1..], cmd);")]),
    ("c02-future-not-awaited-in-place", ["C02", "C07"], [(I, "                let remaining = self.run(data, &mut res_buf).await;", "                let fut = self.run(data, &mut res_buf);\n                let remaining = fut.await;")]),
    ("c03-bool-on-maps-to-false", ["C03"], [(V, "            Value::Characters(\"ON\" | \"on\")\n            | Value::Characters(\"TRUE\" | \"true\")\n            | Value::Decimal(\"1\") => Ok(true),\n            Value::Characters(\"OFF\" | \"off\")", "            Value::Characters(\"TRUE\" | \"true\")\n            | Value::Decimal(\"1\") => Ok(true),\n            Value::Characters(\"ON\" | \"on\")\n            | Value::Characters(\"OFF\" | \"off\")")]),
    ("c03-str-accepts-characters", ["C03"], [(V, "            Value::String(data) => Ok(data),", "            Value::String(data) | Value::Characters(data) => Ok(data),")]),
    ("c04-tuple-order-swapped", ["C04"], [(R, "        self.0.write_response(f).await?;\n        f.write_char(',').await?;\n        self.1.write_response(f).await\n    }", "        self.1.write_response(f).await?;\n        f.write_char(',').await?;\n        self.0.write_response(f).await\n    }")]),
    ("c04-list-comma-after-each", ["C04"], [(R, "        for (i, item) in self.iter().enumerate() {\n            if i > 0 {\n                f.write_char(',').await?;\n            }\n            item.write_response(f).await?;\n        }\n        Ok(())\n    }\n}\n\nimpl<T> Response for &[T]", "        for item in self.iter() {\n            item.write_response(f).await?;\n            f.write_char(',').await?;\n        }\n        Ok(())\n    }\n}\n\nimpl<T> Response for &[T]")]),
    ("c04-block-header-digits", ["C04"], [(R, "            let len_digits = len.ilog10() + 1;", "            let len_digits = len.ilog10();")]),
]


# round 4: the parser combinators themselves (rule <Cxx>-PR), the fields of the parsed call (C01-Q, C02-F), state inventory by type
MUTANTS += [
    ("prim-take_while-pred-not-negated", ["C01", "C03", "C05", "C08", "C11", "C12"], [(P, "position(|&byte| !pred(byte))", "position(|&byte| pred(byte))")]),
    ("prim-satisfy-ignores-pred", ["C01", "C03", "C05", "C08", "C11", "C12"], [(P, "Some(&byte) if pred(byte) => Ok((&i[1..], byte)),", "Some(&byte) if pred(byte) || true => Ok((&i[1..], byte)),")]),
    ("prim-take_while-none-swapped", ["C01", "C03", "C05", "C08", "C11", "C12"], [(P, "None => Ok((&[], input)),", "None => Ok((input, &[])),")]),
    ("prim-take_while-short-by-one", ["C01", "C03", "C05", "C08", "C11", "C12"], [(P, "Some(pos) => Ok((&input[pos..], &input[..pos])),", "Some(pos) => Ok((&input[pos..], &input[..pos.saturating_sub(1)])),")]),
    ("prim-tag-ge", ["C01", "C03", "C05", "C08", "C11", "C12"], [(P, "satisfy(move |byte| byte == tag)", "satisfy(move |byte| byte >= tag)")]),
    ("prim-optional-input-moved", ["C01", "C03", "C05", "C08", "C11", "C12"], [(P, ".unwrap_or((input, None)))", ".unwrap_or((&input[..0], None)))")]),
    ("prim-satisfy-empty-is-soft", ["C01", "C03", "C05", "C08", "C11", "C12"], [(P, "        None => Err(ParseError::Incomplete),\n    }\n}\n\n/// Makes a parser optional.", "        None => Err(Error::InvalidCharacter)?,\n    }\n}\n\n/// Makes a parser optional.")]),
    ("c02-terminated-swapped", ["C02"], [(P, "        .map(|(i, _)| (i, true))\n        .or_else(|_| tag(b';')(input).map(|(i, _)| (i, false)))?;", "        .map(|(i, _)| (i, false))\n        .or_else(|_| tag(b';')(input).map(|(i, _)| (i, true)))?;")]),
    ("c01-query-swapped", ["C01"], [(P, "        .map(|(i, _)| (i, true))\n        .unwrap_or_else(|_| (input, false));", "        .map(|(i, _)| (i, false))\n        .unwrap_or_else(|_| (input, true));")]),
    ("c06-flag-carried-across-messages", ["C06"], [(I, "        let mut read_offset = 0;\n    \n        loop {", "        let mut read_offset = 0;\n        let mut seen_any = false;\n    \n        loop {"),
                                                   (I, "                let remaining = self.run(data, &mut res_buf).await;\n", "                let remaining = self.run(data, &mut res_buf).await;\n                if !seen_any { seen_any = true; }\n")]),
    ("c05-LF-count-plus-two", ["C05"], [(P, "    Ok((i2, &input[..res.len() + 1]))\n}\n\n/// Parses a program mnemonic", "    Ok((i2, &input[..res.len() + 2]))\n}\n\n/// Parses a program mnemonic")]),
]

ALL = ["C%02d" % i for i in range(1, 15)]

BENIGN = [
    # name, checks that must stay silent, edits
    ("b-rename-locals-run", ALL, [(I, "let mut header = self.root_node();", "let mut path = self.root_node();"), (I, "parser::parse(self.root_node(), header, input)", "parser::parse(self.root_node(), path, input)"),
                                  (I, "                        header = self.root_node();\n                        continue;", "                        path = self.root_node();\n                        continue;"),
                                  (I, "                    header = self.root_node();\n                }\n                else if let Some(call_header) = call.header {\n                    // Update the current header, if the current command is not a common command.\n                    header = call_header;", "                    path = self.root_node();\n                }\n                else if let Some(call_header) = call.header {\n                    // Update the current header, if the current command is not a common command.\n                    path = call_header;"),
                                  (I, "                // resets the header to the root node.\n                header = self.root_node();", "                // resets the header to the root node.\n                path = self.root_node();")]),
    ("b-reorder-lets-process", ALL, [(I, "        let mut proc_offset = 0;\n        let mut read_offset = 0;", "        let mut read_offset = 0;\n        let mut proc_offset = 0;")]),
    ("b-child-iterator-find", ALL, [(T, "        for child in self.children {\n            if child.0.eq_ignore_ascii_case(name) {\n                return Some(child.1);\n            }\n        }\n        None", "        self.children\n            .iter()\n            .find(|child| child.0.eq_ignore_ascii_case(name))\n            .map(|child| child.1)")]),
    ("b-whitespace-as-comparisons", ALL, [(P, "matches!(input, 0u8..=9u8 | 11u8..=32u8)", "input <= 9 || (11..=32).contains(&input)")]),
    ("b-run-errors-as-match", ALL, [(I, "            if let Err(ParseError::Incomplete) = result {\n                #[cfg(feature = \"defmt\")]\n                defmt::trace!(\"Incomplete Input\");\n                return input;\n            } \n            else if let Err(error) = result {\n                #[cfg(feature = \"defmt\")]\n                defmt::trace!(\"Parse error\");\n                self.handle_error(error.into());",
                                     "            if let Err(ParseError::Incomplete) = result {\n                return input;\n            }\n            if let Err(error) = result {\n                self.handle_error(Error::from(error));")]),
    ("b-question-mark-as-match", ALL, [(I, "let count = adapter.read(&mut cmd_buf[read_offset..]).await?;", "let count = match adapter.read(&mut cmd_buf[read_offset..]).await {\n                Ok(count) => count,\n                Err(error) => return Err(error),\n            };")]),
    ("b-inline-attrs-and-comments", ALL, [(T, "    pub fn child(&self, name: &str)", "    #[inline]\n    pub fn child(&self, name: &str)"), (P, "/// Parses a sequence of digits.", "/// Parses a sequence of decimal digits (at least one)."), (Q, "    fn pop_error(&mut self) -> Option<Error> {", "    #[inline]\n    fn pop_error(&mut self) -> Option<Error> {")]),
    ("b-reorder-match-arms-value", ALL, [(V, "            Value::String(data) => Ok(data),\n            _ => Err(Error::DataTypeError),", "            Value::String(text) => Ok(text),\n            _other => Err(Error::DataTypeError),")]),
    ("b-satisfy-arms-reordered", ALL, [(P, "        Some(&byte) if pred(byte) => Ok((&i[1..], byte)),\n        Some(_) => Err(Error::InvalidCharacter)?,\n        None => Err(ParseError::Incomplete),", "        None => Err(ParseError::Incomplete),\n        Some(&byte) if pred(byte) => Ok((&i[1..], byte)),\n        Some(_) => Err(Error::InvalidCharacter)?,")]),
    ("b-octal-class-as-range-inclusive", ALL, [(P, "satisfy(|c| (b'0'..b'8').contains(&c))(i2)?", "satisfy(|c| (b'0'..=b'7').contains(&c))(i2)?"), (P, "take_while(|c| (b'0'..b'8').contains(&c))(i3)?", "take_while(|c| matches!(c, b'0'..=b'7'))(i3)?")]),
    ("b-process-helper-extracted", ALL, [
        (I, "                if !res_buf.is_empty() {\n                    adapter.write(&res_buf).await?;\n                    adapter.flush().await?;\n                    res_buf.clear();\n                }",
            "                send_response(adapter, &mut res_buf).await?;"),
        (I, "pub trait Interface: ErrorHandler {", "/// Sends a pending response to the transport.\nasync fn send_response<const N: usize, A: Adapter>(\n    adapter: &mut A, res_buf: &mut heapless::Vec<u8, N>,\n) -> Result<(), A::Error> {\n    if !res_buf.is_empty() {\n        adapter.write(res_buf).await?;\n        adapter.flush().await?;\n        res_buf.clear();\n    }\n    Ok(())\n}\n\npub trait Interface: ErrorHandler {")]),
    ("b-run-loop-form", ALL, [(I, "        while !input.is_empty() {\n            let result", "        loop {\n            if input.is_empty() {\n                break;\n            }\n            let result")]),
    ("b-optional-ws-as-match", ALL, [(P, "    // Skip optional whitespace\n    let (input, _) = optional(whitespace)(input)?;\n\n    let (input, terminated)", "    // Skip optional whitespace\n    let input = match whitespace(input) {\n        Ok((i, _)) => i,\n        Err(_) => input,\n    };\n\n    let (input, terminated)")]),
    ("b-queue-overflow-match", ALL, [(Q, "            if let Some(value) = self.0.back_mut() {\n                *value = Error::QueueOverflow;\n            }", "            match self.0.back_mut() {\n                Some(newest) => *newest = Error::QueueOverflow,\n                None => {}\n            }")]),
]


# round 5: every refactoring delivered by the independent sub-agents (selftest/refactors/<name>/patch.diff) is a benign
# entry of its own, and some of them carry a mutant: the refactored form with one thing broken (so that accepting an
# idiom - hand-written scan, iterator-adaptor scan, counting-loop take_while - is never accepting it blindly)
import glob as _glob
import os as _os
_here = _os.path.dirname(_os.path.abspath(__file__))
for _d in sorted(_glob.glob(_os.path.join(_here, "refactors", "*"))):
    if _os.path.exists(_os.path.join(_d, "patch.diff")):
        BENIGN.append(("r-" + _os.path.basename(_d), ALL, [("@patch", "refactors/%s/patch.diff" % _os.path.basename(_d), None)]))

MUTANTS += [
    ("idiom-handscan-bound-le", ["C05"], [("@patch", "refactors/process-R2/patch.diff", None),
                                        (I, "while position < unscanned.len() && unscanned[position] != b'\\n' {", "while position <= unscanned.len() && unscanned[position] != b'\\n' {")]),
    ("idiom-handscan-wrong-byte", ["C07", "C08"], [("@patch", "refactors/process-R2/patch.diff", None),
                                                  (I, "while position < unscanned.len() && unscanned[position] != b'\\n' {", "while position < unscanned.len() && unscanned[position] != b';' {")]),
    ("idiom-iter-count-wrong-class", ["C03"], [("@patch", "refactors/parser-leaves-R4/patch.diff", None),
                                              (P, "let len = 1 + rest.iter().take_while(|c| c.is_ascii_digit()).count();", "let len = 1 + rest.iter().take_while(|c| c.is_ascii_alphanumeric()).count();")]),
    ("idiom-iter-count-off-by-one", ["C03"], [("@patch", "refactors/parser-leaves-R4/patch.diff", None),
                                             (P, "let len = 1 + rest.iter().take_while(|c| c.is_ascii_digit()).count();", "let len = rest.iter().take_while(|c| c.is_ascii_digit()).count();")]),
    ("idiom-take_while-loop-pred-negated", ["C11", "C12"], [("@patch", "refactors/parser-leaves-r2-R2/patch.diff", None),
                                                           (P, "while taken < input.len() && pred(input[taken]) {", "while taken < input.len() && !pred(input[taken]) {")]),
    ("idiom-struct-offsets-read-not-advanced", ["C05", "C07"], [("@patch", "refactors/process-r3-R2/patch.diff", None),
                                                               (I, "            self.processed = self.processed + data_len - remaining_len;\n            self.read = terminator_pos + 1;", "            self.processed = self.processed + data_len - remaining_len;\n            self.read = terminator_pos;")]),
    ("idiom-struct-offsets-rebase-order", ["C07"], [("@patch", "refactors/process-r3-R2/patch.diff", None),
                                                   (I, "        self.read -= self.processed;\n        self.processed = 0;", "        self.processed = 0;\n        self.read -= self.processed;")]),
    ("idiom-scan-helper-returns-read-offset", ["C07"], [("@patch", "refactors/process-r3-R3/patch.diff", None), (I, "    Ok(proc_offset)\n}", "    Ok(read_offset)\n}")]),
    ("idiom-scan-helper-write-outside-guard", ["C10"], [("@patch", "refactors/process-r3-R3/patch.diff", None),
                                                       (I, "        if !res_buf.is_empty() {\n            adapter.write(&*res_buf).await?;", "        {\n            adapter.write(&*res_buf).await?;")]),
    ("idiom-either-swallows-incomplete", ["C08", "C12"], [("@patch", "refactors/parser-top-r4-R4/patch.diff", None),
                                                         (P, "        Err(ParseError::SoftError(_) | ParseError::FatalError(_)) => second(input),\n        verdict => verdict,", "        Err(_) => second(input),\n        verdict => verdict,")]),
    ("idiom-split_once-quote-not-doubled", ["C04"], [("@patch", "refactors/response-value-r4-R2/patch.diff", None),
                                                    (R, "        f.write_str(DOUBLED_QUOTE).await?;", "        f.write_str(\"\\\"\").await?;")]),
    ("idiom-slicepat-terminator-swapped", ["C02"], [("@patch", "refactors/parser-top-r4-R1/patch.diff", None),
                                                   (P, "[b'\\n', rest @ ..] => (rest, true)", "[b'\\n', rest @ ..] => (rest, false)")]),
    ("idiom-take_while-loop-unguarded", ["C05"], [("@patch", "refactors/parser-leaves-r2-R2/patch.diff", None),
                                                 (P, "while taken < input.len() && pred(input[taken]) {", "while pred(input[taken]) {")]),
]


# refactorings that are known to raise alarms although behaviour is unchanged (DESIGN.md 6.3): the state of `process`
# restructured beyond what the buffer-discipline rules can follow. Listed so that the run shows them for what they are.
LIMITATIONS = {
    "r-process-r4-R1": "the terminator search of process written as iter().zip(read_offset..).find_map(|(&b, i)| (b == b'\\n').then_some(i)) - not one of the recognised search idioms",
    "r-process-r4-R4": "the repeated terminator search of process fused into one for-enumerate pass with `continue` - a different loop structure than the nested search the buffer-discipline rules read",
    "r-queue-tree-r4-R2": "Node::child rewritten as a slice-pattern walk over a loop-carried remainder with a hand-written byte-wise case-insensitive comparison",
    # feature commits (round r6) that replace a recognised construct by open-coded byte handling
    "r-parser-leaves-r6-R1": "the length field of a block decoded by an open-coded loop over `i2.iter().take(digits)` with checked arithmetic on `byte - b'0'` instead of from_utf8 + from_str_radix: an explicit byte loop inside a leaf parser (direct inspection, a loop without a consuming parser, arithmetic under an is_ascii_digit guard)",
    "r-parser-leaves-r6-R2": "whitespace() examines `input.first()` itself and then applies take_while to `input[1..]`: an open-coded satisfy in front of the combinator, whose consumed language the skeleton does not compute",
    # feature commits (round r7)
    "r-parser-leaves-r7-R1": "optional() passes a FatalError of the wrapped parser on instead of answering None: the contract of a combinator (rule PR: optional never fails) is changed; it is equivalent only because no wrapped parser produces a fatal error today, which the rule does not establish",
    "r-parser-leaves-r7-R2": "a fast reject in decimal_numeric_program_data by `input.first()` outside the combinators (one byte of lookahead): reported as direct inspection; the path on which first() is None and the old code goes on is infeasible but not pruned",
    "r-parser-leaves-r7-R3": "arbitrary_program_data inspects the byte behind '#' by `first()` to report #0 blocks with their own error number: direct inspection of a remainder outside the combinators",
    "r-parser-top-r7-R1": "argument() looks at `input.first()` to answer '(' with -178: direct inspection outside the combinators (same lookahead idiom)",
    "r-parser-top-r7-R2": "parse() skips the parameter parsers when the byte behind the white space is a newline or ';' (`at_unit_end` by first()): an exactly equivalent lookahead that the skeleton rules cannot see through",
    "r-process-r7-R2": "process gains a `discarding` state that drops the rest of an oversized message up to its terminator: a new loop-carried flag and a second scan form, outside the buffer discipline the K-rules read",
    "r-process-r7-R4": "the response buffer of process wrapped in a private ResponseBuffer<N> that truncates back to the last flush on a failed write: the rules identify the response buffer by its type and its uses",
    "r-run-r7-R1": "run_blocking polls the future of run with a no-op waker inside an `unsafe` Pin::new_unchecked block: user-written unsafe code is outside the panic-edge universe (C05 fails closed) and a future that is polled by hand is not `awaited in place`",
    "r-run-r7-R3": "commands whose handler returns a value are given a discarding writer (NoResponse): a Write impl that by design does not append what it is given, against the writer rule of C04",
    "r-parser-leaves-r8-R2": "the length field of a block decoded by a private block_length() - try_fold over the digit bytes with checked_mul/checked_add on `byte - b'0'` - and the payload cut off by split_at_checked(..).ok_or(Incomplete): the same open-coded digit loop as r6-R1 (its `byte - b'0'` is an undischarged panic edge for C05, the block's value and remainder are not the two halves the C08/C12 rules recognise)",
    "r-process-r6-R3": "process skips run() for a line that consists of white space only (`data[..len-1].iter().all(is_whitespace)`): showing that run would have been a no-op on such a line is a fact about the parser that the buffer-discipline rules do not have (they require one run per terminator)",
}
