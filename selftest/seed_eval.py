#!/usr/bin/python3
"""Confirm a sub-agent's seeded change and run the checks against it.

usage: seed_eval.py <ID> <X>     (reads /tmp/wt-out/<ID>/X.*, uses the worktree /tmp/wt/<ID>)
Steps: (1) apply the patch in the worktree, run the repository suite (must pass) and the demo (must fail);
(2) revert, run the demo (must pass); (3) run all 14 quick checks with VERIF_REPO pointing at a scratch copy that has
the patch applied; (4) store patch, demo and meta.json (with what was run and which checks fired) in /verif/seeded/<ID>-<X>/."""
import json
import os
import shutil
import subprocess
import sys
import tempfile

ID, X = sys.argv[1], sys.argv[2]
wt = "/tmp/wt/%s" % ID
out = os.environ.get("WT_OUT", "/tmp/wt-out") + "/%s" % ID
env = dict(os.environ, CARGO_NET_OFFLINE="true")


def sh(cmd, cwd=wt, timeout=1800):
    p = subprocess.run(cmd, shell=True, cwd=cwd, env=env, stdout=subprocess.PIPE, stderr=subprocess.STDOUT, text=True, timeout=timeout)
    return p.returncode, p.stdout


patch = os.path.join(out, X + ".patch.diff")
demo_rs = os.path.join(out, X + ".demo.rs")
demo_sh = os.path.join(out, X + ".demo.sh")
meta_in = json.load(open(os.path.join(out, X + ".meta.json"))) if os.path.exists(os.path.join(out, X + ".meta.json")) else {}
ran = []
sh("git checkout -q -- . && git clean -fdq microscpi/tests")
name = "demo_%s_%s" % (ID.lower(), X.lower())


def run_demo():
    if os.path.exists(demo_sh):
        cmd = "bash %s %s" % (demo_sh, wt)
        rc, o = sh(cmd)
        ran.append(cmd)
        return rc, o
    shutil.copy(demo_rs, os.path.join(wt, "microscpi/tests/%s.rs" % name))
    cmd = "cargo test -p microscpi --offline --test %s" % name
    rc, o = sh(cmd)
    if "can't find" in o or "unresolved import" in o and "std" in o:
        pass
    if rc != 0 and "could not compile" in o:
        cmd = "cargo test --workspace --offline --test %s" % name
        rc, o = sh(cmd)
    ran.append(cmd)
    return rc, o


res = {"id": ID, "x": X}
rc, o = sh("git apply %s" % patch)
res["patch_applies"] = rc == 0
rc, o = sh("cargo test --workspace --offline 2>&1 | grep -E '^test result|FAILED|^error' ")
ran.append("cargo test --workspace --offline   (with the change)")
res["suite_with_change"] = o.strip().split("\n")
res["suite_passes_with_change"] = "FAILED" not in o and "error" not in o and o.count("test result: ok") >= 3
rc, o = run_demo()
res["demo_fails_with_change"] = rc != 0
res["demo_with_change_tail"] = o[-1500:]
sh("git apply -R %s" % patch)
rc, o = run_demo()
res["demo_passes_without_change"] = rc == 0
if rc != 0:
    res["demo_without_change_tail"] = o[-1500:]
sh("git checkout -q -- . && git clean -fdq microscpi/tests")

# checks against a scratch copy with the patch
S = tempfile.mkdtemp(prefix="verif-seed-")
try:
    subprocess.check_call(["rsync", "-a", "--exclude", "target", "--exclude", ".git", "/repo/", S + "/repo/"])
    subprocess.check_call("cd %s/repo && patch -p1 -s < %s" % (S, patch), shell=True)
    cenv = dict(os.environ, VERIF_REPO=S + "/repo", VERIF_EVIDENCE_DIR=S + "/evidence")
    fired = {}
    for pid in ["C%02d" % i for i in range(1, 15)]:
        p = subprocess.run(["/verif/check", pid, "quick"], env=cenv, stdout=subprocess.PIPE, stderr=subprocess.STDOUT, text=True)
        if p.returncode != 0:
            lines = [l.strip() for l in p.stdout.split("\n") if l.startswith("  rule")]
            fired[pid] = [l[:400] for l in lines[:4]]
    res["checks_fired"] = fired
    res["target_check_fired"] = ID in fired
finally:
    shutil.rmtree(S, ignore_errors=True)

d = "/verif/seeded/%s-%s" % (ID, X)
os.makedirs(d, exist_ok=True)
shutil.copy(patch, os.path.join(d, "patch.diff"))
if os.path.exists(demo_rs):
    shutil.copy(demo_rs, os.path.join(d, "demo.rs"))
if os.path.exists(demo_sh):
    shutil.copy(demo_sh, os.path.join(d, "demo.sh"))
confirmed = res["patch_applies"] and res["suite_passes_with_change"] and res["demo_fails_with_change"] and res["demo_passes_without_change"]
meta = {
    "property": ID,
    "summary": meta_in.get("summary"),
    "needs": meta_in.get("needs"),
    "author": "independent sub-agent (given only the property text and a scratch worktree)",
    "confirmed_by_me": confirmed,
    "what_i_ran": ran,
    "suite_passes_with_change": res["suite_passes_with_change"],
    "demo_fails_with_change": res["demo_fails_with_change"],
    "demo_passes_without_change": res["demo_passes_without_change"],
    "checks_fired_quick": res.get("checks_fired"),
    "caught_by_target_check": res.get("target_check_fired"),
}
with open(os.path.join(d, "meta.json"), "w") as f:
    json.dump(meta, f, indent=1)
print(json.dumps({k: v for k, v in res.items() if k not in ("demo_with_change_tail",)}, indent=1)[:3000])
if not confirmed:
    print("NOT CONFIRMED")
    print(res.get("demo_with_change_tail", "")[-800:])
