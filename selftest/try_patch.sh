#!/bin/bash
# usage: selftest/try_patch.sh <patch.diff> <property ids...>   - runs checks against a scratch copy of /repo with the patch
p=$1; shift
S=$(mktemp -d /tmp/verif-try-XXXXXX); trap 'rm -rf "$S"' EXIT
rsync -a --exclude target --exclude .git /repo/ "$S/repo/"
(cd "$S/repo" && patch -p1 -s < "$p") || { echo "patch failed"; exit 3; }
export VERIF_REPO="$S/repo" VERIF_EVIDENCE_DIR="$S/ev"
for c in "$@"; do out=$(/verif/check "$c" quick 2>&1); rc=$?; echo "== $(basename $(dirname $p))/$(basename $p) / $c rc=$rc"; echo "$out" | grep -E "^  rule" | head -${LINES_MAX:-4} | cut -c1-${COLS_MAX:-330}; done
