#!/usr/bin/python3
"""Runs the self-test catalogue: selftest/run.py [mutants|benign|all] [name-substring] [--tests]
For every entry: scratch copy of /repo (outside /repo and /verif), apply the edits, optionally run the repository's
suite (must still pass), run the named checks; a mutant must be reported by every named check, a benign refactor by none."""
import os
import shutil
import subprocess
import sys
import tempfile

sys.path.insert(0, os.path.dirname(os.path.abspath(__file__)))
import catalogue  # noqa: E402

mode = sys.argv[1] if len(sys.argv) > 1 else "all"
flt = [a for a in sys.argv[2:] if not a.startswith("--")]  # --tests, --jobs=N
with_tests = "--tests" in sys.argv
TARGET = "/tmp/verif-selftest-target"
results = []


def apply(root, edits):
    for (f, old, new) in edits:
        if f == "@patch":
            # a whole patch (one of the refactorings kept under selftest/refactors/), possibly followed by literal edits
            pf = os.path.join(os.path.dirname(os.path.abspath(__file__)), old)
            if subprocess.run("patch -p1 -s < %s" % pf, shell=True, cwd=root).returncode != 0:
                return "patch %s does not apply" % old
            continue
        p = os.path.join(root, f)
        s = open(p).read()
        if s.count(old) != 1:
            return "edit does not apply exactly once in %s (%d): %r" % (f, s.count(old), old[:60])
        open(p, "w").write(s.replace(old, new))
    return None


def one(kind, name, checks, edits):
    S = tempfile.mkdtemp(prefix="verif-self-")
    try:
        subprocess.check_call(["rsync", "-a", "--exclude", "target", "--exclude", ".git", "/repo/", S + "/repo/"])
        # fresh mtimes: the shared target directory must never reuse the previous entry's artefacts
        subprocess.check_call("find %s/repo -type f \\( -name '*.rs' -o -name 'Cargo.toml' \\) -exec touch {} +" % S, shell=True)
        err = apply(S + "/repo", edits)
        if err:
            return (kind, name, "STALE", err)
        suite = ""
        if with_tests:
            env = dict(os.environ, CARGO_NET_OFFLINE="true", CARGO_TARGET_DIR=TARGET)
            p = subprocess.run("cargo test --workspace --offline 2>&1 | grep -E '^test result|FAILED|^error'", shell=True, cwd=S + "/repo", env=env, stdout=subprocess.PIPE, text=True)
            ok = "FAILED" not in p.stdout and "error" not in p.stdout and p.stdout.count("test result: ok") >= 3
            suite = "suite:pass" if ok else "suite:FAIL"
        env = dict(os.environ, VERIF_REPO=S + "/repo", VERIF_EVIDENCE_DIR=S + "/ev")
        fired = []
        detail = {}
        only = [c for c in os.environ.get("VERIF_ONLY", "").split(",") if c]
        if only:
            checks = [c for c in checks if c in only]
        for c in checks:
            p = subprocess.run(["/verif/check", c, "quick"], env=env, stdout=subprocess.PIPE, stderr=subprocess.STDOUT, text=True)
            if p.returncode != 0:
                fired.append(c)
                detail[c] = [l.strip()[:220] for l in p.stdout.split("\n") if l.startswith("  rule")][:2]
        if kind == "mutant":
            verdict = "ok" if set(fired) == set(checks) else "MISSED by %s" % sorted(set(checks) - set(fired))
        elif name in getattr(catalogue, "LIMITATIONS", {}):
            verdict = "ok (silent; listed as a limitation - the list can be shortened)" if not fired else "ok-LIMITATION alarm from %s as documented: %s" % (fired, catalogue.LIMITATIONS[name][:80])
        else:
            verdict = "ok" if not fired else "FALSE ALARM from %s" % fired
        return (kind, name, verdict + (" " + suite if suite else ""), detail)
    finally:
        shutil.rmtree(S, ignore_errors=True)


todo = []
if mode in ("mutants", "all"):
    todo += [("mutant",) + m for m in catalogue.MUTANTS]
if mode in ("benign", "all"):
    todo += [("benign",) + b for b in catalogue.BENIGN]
jobs = 1
for a in sys.argv[1:]:
    if a.startswith("--jobs="):
        jobs = int(a.split("=")[1])
todo = [t for t in todo if not flt or any(f in t[1] for f in flt)]
import concurrent.futures
_pool = concurrent.futures.ThreadPoolExecutor(max_workers=jobs)
for r in _pool.map(lambda t: one(*t), todo):
    results.append(r)
    print("%-7s %-38s %s" % (r[0], r[1], r[2]))
    if "ok" not in r[2] or r[0] == "benign" and r[2] != "ok":
        for c, d in (r[3].items() if isinstance(r[3], dict) else [("", [r[3]])]):
            for l in d:
                print("          %s %s" % (c, l))
    sys.stdout.flush()
bad = [r for r in results if not r[2].startswith("ok")]
print("%d entries, %d not ok" % (len(results), len(bad)))
