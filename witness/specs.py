"""Witness interfaces: hand-designed specs + seeded random generator + the oracle.

A spec is the source of truth: the Rust source is rendered from it and compiled through the
real macro of /repo's current tree; the oracle below re-implements the property statement
(short = declared spelling minus lower-case letters, long = whole spelling, [x] optional,
trailing ? = query) and shares no code with the macro."""
import random

PARAM_TYPES = ["u8", "i8", "u16", "i16", "u32", "i32", "u64", "i64", "usize", "isize", "f32", "f64", "bool", "&str", "&[u8]"]

# response type -> value expression
RET = {
    "()": "()",
    "bool": "true",
    "u8": "1", "i8": "-1", "u16": "1", "i16": "-1", "u32": "1", "i32": "-1", "u64": "1", "i64": "-1", "usize": "1", "isize": "-1",
    "f32": "1.5", "f64": "2.5",
    "&str": "\"x\"",
    "&'static str": "\"x\"",
    "microscpi::Characters<'static>": "microscpi::Characters(\"ABC\")",
    "microscpi::Arbitrary<'static>": "microscpi::Arbitrary(b\"abc\")",
    "(u8, f32)": "(1, 1.5)",
    "(i16, &'static str, bool)": "(1, \"x\", true)",
    "(u8, u8, u8, u8)": "(1, 2, 3, 4)",
    "heapless::Vec<u8, 4>": "heapless::Vec::new()",
    "heapless::String<8>": "heapless::String::new()",
    "&'static [u16]": "&[1u16, 2u16]",
    "microscpi::Error": "microscpi::Error::QueryError",
}


def d(cmd, fn, params=(), ret=None, is_async=True):
    if ret is None:
        ret = "u8" if cmd.endswith("?") else "()"
    return {"cmd": cmd, "fn": fn, "params": list(params), "ret": ret, "async": is_async}


STATIC = [
    {"mod": "s01_depth", "flags": [], "decls": [
        d("A", "a"), d("A?", "aq"), d("B:C", "bc"), d("B:C:D?", "bcdq"), d("B:C:D:E", "bcde"), d("B:C:D:E?", "bcdeq")]},
    {"mod": "s02_optional", "flags": [], "decls": [
        d("[SYSTem]:TeST:A", "first"), d("[SYSTem]:TeST:A?", "firstq"), d("MEASure:[VOLTage]:DC?", "middle"),
        d("OUTPut:STATe:[IMMediate]", "last"), d("[SOURce]:[CURRent]:LEVel", "two"), d("CONFigure:[A1]:[B2]:[C3]:X?", "three")]},
    {"mod": "s03_common", "flags": [], "decls": [
        d("*IDN?", "idn", ret="&str"), d("*RST", "rst"), d("*OPC", "opc"), d("*OPC?", "opcq"), d("*TST?", "tst", ret="i16")]},
    {"mod": "s04_shortforms", "flags": [], "decls": [
        d("TeST", "tst"), d("RANGe_x?", "rangex"), d("CH1:VALue2?", "ch1"), d("IN_put:LOW_pass", "lp"), d("ABCdef:ABCdefG?", "abc"),
        d("X1y2Z3", "mixed"), d("FREQuency:CW", "allcaps")]},
    {"mod": "s05_both", "flags": [], "decls": [
        d("VOLTage", "vset", ["f32"]), d("VOLTage?", "vget", ret="f32"), d("VOLTage:RANGe", "rset", ["u8"]), d("VOLTage:RANGe?", "rget"),
        d("[LEVel]:OFFSet", "oset", ["i32"]), d("[LEVel]:OFFSet?", "oget", ret="i32")]},
    {"mod": "s06_samename", "flags": [], "decls": [
        d("VALue?", "root_val"), d("SYSTem:VALue?", "sys_val"), d("SYSTem:B:VALue?", "sysb_val"), d("SYSTem:B:VALue", "sysb_set", ["u8"]),
        d("A:A:A", "aaa"), d("A:A", "aa"), d("A", "a")]},
    {"mod": "s07_sync", "flags": [], "decls": [
        d("SYNC:ONE", "one", is_async=False), d("SYNC:TWO?", "two", is_async=False), d("ASYNc:ONE", "aone"), d("SYNC:ARG", "arg", ["u16", "bool"], is_async=False)]},
    {"mod": "s08_generic", "flags": [], "generic": True, "decls": [
        d("GENeric:GET?", "get"), d("GENeric:SET", "set", ["i64"])]},
    {"mod": "s09_std", "flags": ["StandardCommands"], "decls": [d("USER:CMD", "u"), d("SYSTem:OTHer?", "o")]},
    {"mod": "s10_err", "flags": ["ErrorCommands"], "decls": [d("USER:CMD", "u"), d("SYSTem:OTHer?", "o")]},
    {"mod": "s11_both", "flags": ["StandardCommands", "ErrorCommands"], "decls": [d("USER:CMD", "u"), d("*CLS", "cls")]},
    {"mod": "s12_none", "flags": [], "decls": [d("SYSTem:ERRor:OTHer?", "o"), d("USER:CMD", "u")]},
    {"mod": "s13_arity", "flags": [], "decls": [
        d("ARG0", "a0"), d("ARG1", "a1", PARAM_TYPES[:1]), d("ARG2", "a2", PARAM_TYPES[1:3]), d("ARG3", "a3", PARAM_TYPES[3:6]),
        d("ARG4", "a4", PARAM_TYPES[6:10]), d("ARG5?", "a5", PARAM_TYPES[10:15]), d("ARG10", "a10", PARAM_TYPES[:10]),
        d("ARG9?", "a9", list(reversed(PARAM_TYPES))[:9]), d("STR", "s2", ["&str", "&str"]), d("BLK?", "b2", ["&[u8]", "u8", "&[u8]"])]},
    {"mod": "s14_ret", "flags": [], "decls": [d("R%d?" % i, "r%d" % i, ret=t) for i, t in enumerate(sorted(RET)) if t != "()"]
        + [d("RU", "ru", ret="()"), d("RQU?", "rqu", ret="()")]},
    # impl blocks that also hold items without #[scpi] (constructors, helpers, constants) before, between and after the
    # handlers: the identity of a command must not depend on them
    {"mod": "s15_helpers", "flags": ["StandardCommands", "ErrorCommands"], "helpers": {0: 2, 1: 1, 3: 1},
     "decls": [d("CONFigure:RANGe", "range", ["u8"]), d("CONFigure:RANGe?", "rangeq"), d("MEASure?", "meas", ret="f32"), d("*WAI", "wai")]},
    {"mod": "s16_helpers_std", "flags": ["StandardCommands"], "helpers": {0: 3, 2: 2}, "decls": [d("A:B", "ab"), d("A:B?", "abq")]},
    {"mod": "s17_helpers_err", "flags": ["ErrorCommands"], "helpers": {0: 1, 1: 4}, "decls": [d("X", "x"), d("Y?", "yq"), d("[Z]:W", "zw")]},
    # declarations written with empty levels (leading colon of the manual's notation, doubled or trailing colon) and with
    # blanks around the levels: the macro skips / trims them
    {"mod": "s19_empty_levels", "flags": ["StandardCommands"], "decls": [d(":SYSTem:BEEPer:[IMMediate]", "beep"), d("OUTPut::STATe?", "outq"),
                                                                           d("CONFigure:RANGe:", "conf", ["u8"]), d(" MEASure : VOLTage ?", "measq"), d(":*TRG", "trg")]},
    # the device type has inherent methods of its own that are named like the standard commands' functions: the
    # dispatcher must still reach the library's functions (fully qualified), not whatever method lookup finds first
    {"mod": "s20_shadowing", "flags": ["StandardCommands", "ErrorCommands"], "decls": [d("USER:CMD", "u"), d("USER:QRY?", "uq")],
     "raw_items": ["pub fn system_error_count(&mut self) -> Result<u8, scpi::Error> { Ok(0) }",
                   "pub fn system_error_next(&mut self) -> Result<u8, scpi::Error> { Ok(0) }",
                   "pub fn system_version(&mut self) -> Result<u8, scpi::Error> { Ok(0) }"]},
    # sibling nodes that share a spelling without colliding: a mnemonic written in short form only (`OUTP`, `FREQ`) next to
    # one whose short form it is (`OUTPut`, `FREQuency`), two mnemonics with the same short form (`STATus`, `STATe`) - in
    # both declaration orders, since a tree that is built incrementally may depend on which comes first
    {"mod": "s21_shared_spelling", "flags": [], "decls": [
        d("OUTPut:STATe", "outs", ["bool"]), d("OUTP:LEVel", "outl", ["f32"]), d("STATus:OPERation?", "stop"), d("STATe:RECall", "strc"),
        d("FREQ:SPAN?", "fspan"), d("FREQuency:CENTer?", "fcent"), d("[SENSe]:FREQuency:STARt?", "fstart")]},
    {"mod": "s22_shared_spelling_rev", "flags": ["ErrorCommands"], "decls": [
        d("[SENSe]:FREQuency:STARt?", "fstart"), d("FREQuency:CENTer?", "fcent"), d("FREQ:SPAN?", "fspan"), d("STATe:RECall", "strc"),
        d("STATus:OPERation?", "stop"), d("OUTP:LEVel", "outl", ["f32"]), d("OUTPut:STATe", "outs", ["bool"]), d("SYST:ERR:ALL?", "eall"), d("SYSTem:ERR_LED", "eled", ["bool"])]},
    # a command and queries whose spelling sets overlap only partly (the command has an optional level the queries lack or
    # require): leaves reached by the same command are not therefore the same leaf
    {"mod": "s24_partial_overlap", "flags": [], "decls": [d("[SOURce]:FREQuency", "fset", ["f64"]), d("SOURce:FREQuency?", "fsrc", ret="f64"), d("FREQuency?", "fget", ret="f64"),
                                                           d("[OUTPut]:[STATe]", "oset", ["bool"]), d("OUTPut?", "oget", ret="bool"), d("STATe?", "sget", ret="bool")]},
    # one optional mnemonic twice in a header: the same spelling of the same handler arises more than once
    {"mod": "s23_self_overlap", "flags": [], "decls": [d("[ROUTe]:[ROUTe]:CLOSe", "rclose", ["u8"]), d("[SENSe]:[VOLTage]:[SENSe]:RANGe?", "srange"), d("[A]:[A]:X", "aax")]},
    # more handlers than a byte can number, plus the built-in commands (whose ids follow the user's): an id type narrower
    # than the declaration count must not make two declarations share a match key
    {"mod": "s25_many", "flags": ["StandardCommands", "ErrorCommands"], "decls": [d("REGister%d?" % k_, "reg%d" % k_, ret="u16" if k_ % 2 else "i32") for k_ in range(256)]},
    # the options of the attribute in the other order: what is requested must not depend on the order it is requested in
    {"mod": "s18_flag_order", "flags": ["ErrorCommands", "StandardCommands"], "decls": [d("USER:CMD", "u"), d("OTHer?", "o")]},
]

UPPER = "ABCDEFGHIJKLMNOPQRSTUVWXYZ"
LOWER = "abcdefghijklmnopqrstuvwxyz"


def rand_mnemonic(rng):
    n_up = rng.randint(1, 4)
    s = "".join(rng.choice(UPPER) for _ in range(n_up))
    style = rng.random()
    if style < 0.55:
        s += "".join(rng.choice(LOWER) for _ in range(rng.randint(0, 4)))
    elif style < 0.7:
        s += rng.choice(LOWER) + rng.choice("0123456789")
    elif style < 0.8:
        s += "_" + rng.choice(LOWER)
    elif style < 0.9:
        # non-prefix short form
        s = s[0] + rng.choice(LOWER) + s[1:] + rng.choice(LOWER)
    return s


def oracle_paths(cmd):
    """All (path tuple in upper case, kind) spellings of a declaration, per the property statement."""
    kind = "command"
    if cmd.endswith("?"):
        cmd = cmd[:-1]
        kind = "query"
    parts = []
    for p in cmd.split(":"):
        p = p.strip()
        if not p:
            continue
        opt = p.startswith("[") and p.endswith("]")
        if opt:
            p = p[1:-1]
        short = "".join(c for c in p if not c.islower())
        parts.append((opt, short.upper(), p.upper()))
    paths = [()]
    for (opt, short, long_) in parts:
        nxt = []
        for pre in paths:
            nxt.append(pre + (long_,))
            if short != long_:
                nxt.append(pre + (short,))
            if opt:
                nxt.append(pre)
        paths = nxt
    return paths, kind


def language(decls):
    """-> ({(path, kind): fn}, collisions[list of (key, fn1, fn2)], self_dups)"""
    lang = {}
    coll = []
    for dcl in decls:
        paths, kind = oracle_paths(dcl["cmd"])
        # the spellings of one declaration are a set: a spelling that arises twice (an optional mnemonic repeated in the
        # header) is one spelling of one handler, not a collision
        for p in sorted(set(paths)):
            key = (p, kind)
            if key in lang:
                coll.append((key, lang[key], dcl["fn"]))
            else:
                lang[key] = dcl["fn"]
    return lang, coll


STD_DECLS = {
    "StandardCommands": [("SYSTem:VERSion?", "microscpi::commands::StandardCommands::system_version")],
    "ErrorCommands": [("SYSTem:ERRor:[NEXT]?", "microscpi::commands::ErrorCommands::system_error_next"),
                      ("SYSTem:ERRor:COUNt?", "microscpi::commands::ErrorCommands::system_error_count")],
}


def full_decls(spec):
    """User declarations plus the standard ones requested by the flags (in the macro's documented order)."""
    out = list(spec["decls"])
    for flag in ("StandardCommands", "ErrorCommands"):
        if flag in spec["flags"]:
            for cmd, fn in STD_DECLS[flag]:
                out.append({"cmd": cmd, "fn": fn, "params": [], "ret": "std", "async": False, "std": True})
    return out


def generate(seed, count):
    rng = random.Random(seed)
    specs = []
    for i in range(count):
        flags = [f for f in ("StandardCommands", "ErrorCommands") if rng.random() < 0.3]
        decls = []
        ndecl = rng.randint(2, 8)
        vocab = [rand_mnemonic(rng) for _ in range(rng.randint(3, 7))]
        tries = 0
        while len(decls) < ndecl and tries < 200:
            tries += 1
            if rng.random() < 0.12:
                cmd = "*" + "".join(rng.choice(UPPER) for _ in range(3))
            else:
                depth = rng.randint(1, 4)
                parts = []
                mand = rng.randrange(depth)
                for j in range(depth):
                    m = rng.choice(vocab) if rng.random() < 0.8 else rand_mnemonic(rng)
                    if j != mand and rng.random() < 0.3:
                        m = "[" + m + "]"
                    parts.append(m)
                cmd = ":".join(parts)
            if rng.random() < 0.5:
                cmd += "?"
            paths, kind = oracle_paths(cmd)
            if len(set(paths)) != len(paths) or () in paths:
                continue  # outside the generated domain (self-colliding / unaddressable)
            cand = {"mod": "x", "flags": flags, "decls": decls + [d(cmd, "h%d" % len(decls))]}
            _, coll = language(full_decls(cand))
            if coll:
                continue
            nparams = rng.choice([0, 0, 1, 1, 2, 3])
            params = [rng.choice(PARAM_TYPES) for _ in range(nparams)]
            ret = rng.choice(["u8", "f64", "bool", "&'static str", "(u8, f32)", "i32"]) if cmd.endswith("?") else "()"
            decls.append(d(cmd, "h%d" % len(decls), params, ret, rng.random() < 0.7))
        sp = {"mod": "g%03d" % i, "flags": flags, "decls": decls}
        hr = random.Random(seed * 1000003 + i)
        if len(flags) == 2 and hr.random() < 0.5:
            sp["flags"] = list(reversed(flags))
        if hr.random() < 0.35:
            sp["helpers"] = {k: hr.randint(1, 2) for k in range(len(decls) + 1) if hr.random() < 0.4}
        specs.append(sp)
    return specs


def render(spec):
    m = spec["mod"]
    gen = spec.get("generic", False)
    ty = "Iface<T>" if gen else "Iface"
    ig = "<T>" if gen else ""
    out = ["pub mod %s {" % m, "    #![allow(unused, clippy::all)]",
           "    use microscpi::{self as scpi, ErrorCommands, ErrorHandler, ErrorQueue, Interface, StandardCommands, StaticErrorQueue};"]
    if gen:
        out.append("    pub struct Iface<T> { pub errors: StaticErrorQueue<4>, pub t: T }")
    else:
        out.append("    pub struct Iface { pub errors: StaticErrorQueue<4> }")
    if "ErrorCommands" in spec["flags"]:
        out.append("    impl%s ErrorCommands for %s { fn error_queue(&mut self) -> &mut impl ErrorQueue { &mut self.errors } }" % (ig, ty))
    else:
        out.append("    impl%s ErrorHandler for %s { fn handle_error(&mut self, _error: scpi::Error) {} }" % (ig, ty))
    if "StandardCommands" in spec["flags"]:
        out.append("    impl%s StandardCommands for %s {}" % (ig, ty))
    out.append("    #[scpi::interface(%s)]" % ", ".join(spec["flags"]))
    out.append("    impl%s %s {" % (ig, ty))
    helpers = spec.get("helpers") or {}
    nh = 0

    def emit_helpers(k):
        nonlocal nh
        for _ in range(helpers.get(k, 0)):
            if nh % 3 == 2:
                out.append("        pub const LIMIT_%d: u8 = %d;" % (nh, nh))
            else:
                out.append("        pub fn helper_%d(&self) -> u8 { %d }" % (nh, nh))
            nh += 1
    for k, dcl in enumerate(spec["decls"]):
        emit_helpers(k)
        params = "".join(", p%d: %s" % (i, t) for i, t in enumerate(dcl["params"]))
        for a_ in dcl.get("attrs") or []:
            out.append("        " + a_)
        out.append("        #[scpi(cmd = \"%s\")]" % dcl["cmd"])
        out.append("        pub %sfn %s(&mut self%s) -> Result<%s, scpi::Error> { Ok(%s) }"
                   % ("async " if dcl["async"] else "", dcl["fn"], params, dcl["ret"], RET[dcl["ret"]]))
    emit_helpers(len(spec["decls"]))
    for raw in spec.get("raw_items") or []:
        out.append("        " + raw)
    out.append("    }")
    out.append("}")
    return "\n".join(out)
