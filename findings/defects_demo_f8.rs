//! F8 (C14): fails to COMPILE on the pinned commit (the macro panics with CommandExists), builds after the fix.
/// F8 (C14): one declaration whose optional parts share a spelling is not a collision.
mod f8 {
    use microscpi as scpi;
    pub struct One;
    impl scpi::ErrorHandler for One {
        fn handle_error(&mut self, _e: scpi::Error) {}
    }
    #[scpi::interface]
    impl One {
        #[scpi(cmd = "[A]:[A]:X")]
        async fn x(&mut self) -> Result<(), scpi::Error> {
            Ok(())
        }
    }
}

#[test]
fn f8_single_declaration_with_equal_optional_parts_compiles() {}
