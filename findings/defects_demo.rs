//! Demonstrations of the genuine defects F1-F8 that the static checks reported on the pinned tree.
//! Each test fails on the pinned commit (1df75c0) and passes after the corresponding `fix:` commit.
//! Placed as microscpi/tests/defects_demo.rs and run with `cargo test --workspace --offline --test defects_demo`.
use microscpi::{self as scpi, Adapter, ErrorCommands, ErrorQueue, Interface, StaticErrorQueue};

pub struct Dev {
    errors: StaticErrorQueue<16>,
    log: Vec<&'static str>,
    strs: Vec<String>,
}

impl ErrorCommands for Dev {
    fn error_queue(&mut self) -> &mut impl ErrorQueue {
        &mut self.errors
    }
}

#[scpi::interface(ErrorCommands)]
impl Dev {
    #[scpi(cmd = "VALue")]
    async fn root_val(&mut self) -> Result<(), scpi::Error> {
        self.log.push("VAL");
        Ok(())
    }
    #[scpi(cmd = "SYSTem:VALue?")]
    async fn sys_valq(&mut self) -> Result<u8, scpi::Error> {
        self.log.push("SYST:VAL?");
        Ok(1)
    }
    #[scpi(cmd = "SYSTem:B:VALue")]
    async fn sysb_val(&mut self) -> Result<(), scpi::Error> {
        self.log.push("SYST:B:VAL");
        Ok(())
    }
    #[scpi(cmd = "SYSTem:STRing")]
    async fn sys_str(&mut self, s: &str) -> Result<(), scpi::Error> {
        self.log.push("SYST:STR");
        self.strs.push(s.to_string());
        Ok(())
    }
    #[scpi(cmd = "QUOTe?")]
    async fn quote(&mut self) -> Result<&str, scpi::Error> {
        Ok("A\"B")
    }
    #[scpi(cmd = "*IDN?")]
    async fn idn(&mut self) -> Result<u8, scpi::Error> {
        self.log.push("*IDN?");
        Ok(7)
    }
}

fn dev() -> Dev {
    Dev { errors: StaticErrorQueue::new(), log: vec![], strs: vec![] }
}

fn errors(d: &mut Dev) -> Vec<i16> {
    let mut v = vec![];
    while let Some(e) = d.errors.pop_error() {
        v.push(e.number());
    }
    v
}

struct Script {
    chunks: Vec<Vec<u8>>,
    out: Vec<u8>,
}

impl Adapter for Script {
    type Error = ();
    async fn read(&mut self, dst: &mut [u8]) -> Result<usize, ()> {
        if self.chunks.is_empty() {
            return Err(());
        }
        let c = self.chunks.remove(0);
        let n = c.len().min(dst.len());
        dst[..n].copy_from_slice(&c[..n]);
        if n < c.len() {
            self.chunks.insert(0, c[n..].to_vec());
        }
        Ok(n)
    }
    async fn write(&mut self, src: &[u8]) -> Result<(), ()> {
        self.out.extend_from_slice(src);
        Ok(())
    }
    async fn flush(&mut self) -> Result<(), ()> {
        Ok(())
    }
}

/// F1 (C05): a response that does not fit the writer must be an error, not a panic.
#[tokio::test]
async fn f1_small_response_buffer_does_not_panic() {
    let mut d = dev();
    let mut out: heapless::Vec<u8, 0> = heapless::Vec::new();
    d.run(b"SYST:VAL?\n", &mut out).await;
    assert_eq!(errors(&mut d).len(), 1);
}

/// F2 (C04): embedded double quotes are doubled.
#[tokio::test]
async fn f2_string_response_doubles_quotes() {
    let mut d = dev();
    let mut out: heapless::Vec<u8, 32> = heapless::Vec::new();
    d.run(b"QUOT?\n", &mut out).await;
    assert_eq!(&out[..], b"\"A\"\"B\"\n");
}

/// F3 (C02): a message ending in ';' still resets the path at its terminator.
#[tokio::test]
async fn f3_trailing_semicolon_resets_path() {
    let mut d = dev();
    let mut out: heapless::Vec<u8, 32> = heapless::Vec::new();
    d.run(b"SYST:VAL?;\nVAL\n", &mut out).await;
    assert_eq!(d.log, vec!["SYST:VAL?", "VAL"]);
    assert_eq!(errors(&mut d), Vec::<i16>::new());
}

/// F4 (C02): `:VAL` makes the root the path for the following unit.
#[tokio::test]
async fn f4_leading_colon_resets_path() {
    let mut d = dev();
    let mut out: heapless::Vec<u8, 32> = heapless::Vec::new();
    d.run(b"SYST:B:VAL;:VAL;VAL\n", &mut out).await;
    assert_eq!(d.log, vec!["SYST:B:VAL", "VAL", "VAL"]);
}

/// F5 (C06): a faulty message is reported once and the next message runs.
#[tokio::test]
async fn f5_faulty_message_is_skipped() {
    let mut d = dev();
    let mut out: heapless::Vec<u8, 32> = heapless::Vec::new();
    d.run(b"FOO\nSYST:VAL?\n", &mut out).await;
    assert_eq!(d.log, vec!["SYST:VAL?"]);
    assert_eq!(errors(&mut d), vec![-113]);

    let mut d = dev();
    let mut a = Script { chunks: vec![b"FOO\n".to_vec(), b"*IDN?\n".to_vec(), b"*IDN?\n".to_vec()], out: vec![] };
    let _ = d.process::<32, _>(&mut a).await;
    assert_eq!(d.log, vec!["*IDN?", "*IDN?"]);
    assert_eq!(errors(&mut d), vec![-113]);
}

/// F6 (C08/C12): a newline inside a quoted string neither ends the message nor produces an error under process.
#[tokio::test]
async fn f6_newline_in_string_through_process() {
    let mut d = dev();
    let mut a = Script { chunks: vec![b"SYST:STR 'a\nb';VAL?\n".to_vec()], out: vec![] };
    let _ = d.process::<64, _>(&mut a).await;
    assert_eq!(errors(&mut d), Vec::<i16>::new());
    assert_eq!(d.strs, vec!["a\nb".to_string()]);
    assert_eq!(d.log, vec!["SYST:STR", "SYST:VAL?"]);
}

/// F7 (C07): the result does not depend on the read boundaries.
#[tokio::test]
async fn f7_chunking_independence_when_buffer_fills() {
    let stream = b"*IDN?\n*IDN?\n*IDN?\n";
    let mut d1 = dev();
    let mut a1 = Script { chunks: vec![stream.to_vec()], out: vec![] };
    let _ = d1.process::<16, _>(&mut a1).await;
    let mut d2 = dev();
    let mut a2 = Script { chunks: stream.chunks(6).map(|c| c.to_vec()).collect(), out: vec![] };
    let _ = d2.process::<16, _>(&mut a2).await;
    assert_eq!(d2.log.len(), 3);
    assert_eq!(d1.log, d2.log);
    assert_eq!(a1.out, a2.out);
    assert_eq!(errors(&mut d1), errors(&mut d2));
}

