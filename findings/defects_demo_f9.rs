// F9: the header path of a compound message is lost when process() resumes the message after a payload newline.
use microscpi::{self as scpi, Adapter, ErrorHandler, Interface};

struct Dev { log: Vec<String>, errors: Vec<scpi::Error> }
impl ErrorHandler for Dev { fn handle_error(&mut self, e: scpi::Error) { self.errors.push(e); } }

#[scpi::interface]
impl Dev {
    #[scpi(cmd = "SYSTem:ALPHa")]
    async fn alpha(&mut self) -> Result<(), scpi::Error> { self.log.push("alpha".into()); Ok(()) }
    #[scpi(cmd = "SYSTem:BETA")]
    async fn beta(&mut self, text: &str) -> Result<(), scpi::Error> { self.log.push(format!("beta({text:?})")); Ok(()) }
}

struct Script { data: Vec<u8>, pos: usize }
impl Adapter for Script {
    type Error = ();
    async fn read(&mut self, dst: &mut [u8]) -> Result<usize, ()> {
        if self.pos >= self.data.len() { return Err(()); }
        let n = dst.len().min(self.data.len() - self.pos);
        dst[..n].copy_from_slice(&self.data[self.pos..self.pos + n]);
        self.pos += n;
        Ok(n)
    }
    async fn write(&mut self, _d: &[u8]) -> Result<(), ()> { Ok(()) }
    async fn flush(&mut self) -> Result<(), ()> { Ok(()) }
}

#[tokio::test]
async fn relative_unit_with_payload_newline_keeps_its_path_when_streamed() {
    let msg = b"SYST:ALPH;BETA 'x\ny'\n";
    // whole message to run: both units execute
    let mut d = Dev { log: vec![], errors: vec![] };
    let mut out: heapless::Vec<u8, 64> = heapless::Vec::new();
    d.run(msg, &mut out).await;
    assert_eq!(d.log, vec!["alpha".to_string(), "beta(\"x\\ny\")".to_string()]);
    assert!(d.errors.is_empty());
    // streamed through process: must be the same
    let mut d = Dev { log: vec![], errors: vec![] };
    let mut a = Script { data: msg.to_vec(), pos: 0 };
    let _ = d.process::<64, _>(&mut a).await;
    assert_eq!(d.log, vec!["alpha".to_string(), "beta(\"x\\ny\")".to_string()], "errors: {:?}", d.errors);
    assert!(d.errors.is_empty(), "errors: {:?}", d.errors);
}
