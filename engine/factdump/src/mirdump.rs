//! `mir_built` -> JSON (structure only; dominators etc. are computed by the rule engine).
use crate::hirdump::{gargs_json, try_resolve};
use crate::json::J;
use crate::{defpath, span_json};
use rustc_hir::def_id::LocalDefId;
use rustc_middle::middle::codegen_fn_attrs::CodegenFnAttrFlags;
use rustc_middle::mir::{self, Operand, Place, Rvalue, StatementKind, TerminatorKind};
use rustc_middle::ty::{self, TyCtxt};

fn tys<'tcx>(t: ty::Ty<'tcx>) -> String {
    crate::pp!(t.to_string())
}

struct M<'a, 'tcx> {
    tcx: TyCtxt<'tcx>,
    owner: LocalDefId,
    body: &'a mir::Body<'tcx>,
}

impl<'a, 'tcx> M<'a, 'tcx> {
    fn place(&self, p: &Place<'tcx>) -> J {
        let mut proj = Vec::new();
        for e in p.projection.iter() {
            use mir::ProjectionElem::*;
            proj.push(match e {
                Deref => J::s("*"),
                Field(f, _) => J::Str(format!(".{}", f.as_u32())),
                Index(l) => J::Str(format!("[_{}]", l.as_u32())),
                ConstantIndex { offset, from_end, .. } => J::Str(format!("[c{}{}]", if from_end { "-" } else { "" }, offset)),
                Subslice { from, to, from_end } => J::Str(format!("[{}..{}{}]", from, if from_end { "-" } else { "" }, to)),
                Downcast(name, idx) => J::Str(format!(
                    "as {}#{}",
                    name.map(|n| n.to_string()).unwrap_or_default(),
                    idx.as_u32()
                )),
                OpaqueCast(_) => J::s("opaque"),
                UnwrapUnsafeBinder(_) => J::s("unwrap_binder"),
            });
        }
        J::obj(vec![("l", J::Num(p.local.as_u32() as i128)), ("p", J::Arr(proj))])
    }

    fn operand(&self, op: &Operand<'tcx>) -> J {
        match op {
            Operand::Copy(p) => J::obj(vec![("k", J::s("copy")), ("pl", self.place(p))]),
            Operand::Move(p) => J::obj(vec![("k", J::s("move")), ("pl", self.place(p))]),
            Operand::Constant(c) => {
                let t = c.const_.ty();
                let mut o = vec![("k", J::s("const")), ("ty", J::Str(tys(t)))];
                if let ty::FnDef(did, args) = *t.kind() {
                    o.push(("fn", J::Str(defpath(self.tcx, did))));
                    o.push(("gargs", gargs_json(args)));
                } else if t.is_integral() || t.is_bool() || t.is_char() {
                    if let Some(si) = c.const_.try_to_scalar_int() {
                        let v = if t.is_signed() { si.to_int(si.size()) } else { si.to_uint(si.size()) as i128 };
                        o.push(("v", J::Num(v)));
                    }
                }
                o.push(("dbg", J::Str(crate::pp!(format!("{}", c.const_)))));
                J::obj(o)
            }
            #[allow(unreachable_patterns)]
            other => J::obj(vec![("k", J::s("other")), ("dbg", J::Str(format!("{:?}", other)))]),
        }
    }

    fn rvalue(&self, rv: &Rvalue<'tcx>) -> J {
        match rv {
            Rvalue::Use(op, ..) => J::obj(vec![("k", J::s("Use")), ("ops", J::Arr(vec![self.operand(op)]))]),
            Rvalue::Repeat(op, _) => J::obj(vec![("k", J::s("Repeat")), ("ops", J::Arr(vec![self.operand(op)]))]),
            Rvalue::Ref(_, bk, p) => J::obj(vec![
                ("k", J::s("Ref")),
                ("bk", J::Str(format!("{:?}", bk).split(|c| c == ' ' || c == '{').next().unwrap().to_string())),
                ("pl", self.place(p)),
            ]),
            Rvalue::RawPtr(_, p) => J::obj(vec![("k", J::s("RawPtr")), ("pl", self.place(p))]),
            Rvalue::Cast(ck, op, t) => J::obj(vec![
                ("k", J::s("Cast")),
                ("ck", J::Str(format!("{:?}", ck).split('(').next().unwrap().to_string())),
                ("ops", J::Arr(vec![self.operand(op)])),
                ("ty", J::Str(tys(*t))),
            ]),
            Rvalue::BinaryOp(op, b) => J::obj(vec![
                ("k", J::s("BinaryOp")),
                ("op", J::Str(format!("{:?}", op))),
                ("ops", J::Arr(vec![self.operand(&b.0), self.operand(&b.1)])),
            ]),
            Rvalue::UnaryOp(op, x) => J::obj(vec![
                ("k", J::s("UnaryOp")),
                ("op", J::Str(format!("{:?}", op))),
                ("ops", J::Arr(vec![self.operand(x)])),
            ]),
            Rvalue::Discriminant(p) => J::obj(vec![("k", J::s("Discriminant")), ("pl", self.place(p))]),
            Rvalue::Aggregate(ak, ops) => {
                let mut o = vec![("k", J::s("Aggregate"))];
                match &**ak {
                    mir::AggregateKind::Array(_) => o.push(("ak", J::s("Array"))),
                    mir::AggregateKind::Tuple => o.push(("ak", J::s("Tuple"))),
                    mir::AggregateKind::Adt(did, vi, _, _, _) => {
                        o.push(("ak", J::s("Adt")));
                        let adt = self.tcx.adt_def(*did);
                        o.push(("adt", J::Str(defpath(self.tcx, *did))));
                        o.push(("variant", J::Str(adt.variant(*vi).name.to_string())));
                    }
                    mir::AggregateKind::Closure(did, _) => {
                        o.push(("ak", J::s("Closure")));
                        o.push(("def", J::Str(defpath(self.tcx, *did))));
                    }
                    mir::AggregateKind::Coroutine(did, _) => {
                        o.push(("ak", J::s("Coroutine")));
                        o.push(("def", J::Str(defpath(self.tcx, *did))));
                    }
                    mir::AggregateKind::CoroutineClosure(did, _) => {
                        o.push(("ak", J::s("CoroutineClosure")));
                        o.push(("def", J::Str(defpath(self.tcx, *did))));
                    }
                    mir::AggregateKind::RawPtr(..) => o.push(("ak", J::s("RawPtr"))),
                }
                o.push(("ops", J::Arr(ops.iter().map(|x| self.operand(x)).collect())));
                J::obj(o)
            }
            Rvalue::CopyForDeref(p) => J::obj(vec![("k", J::s("CopyForDeref")), ("pl", self.place(p))]),
            other => J::obj(vec![("k", J::s("Other")), ("dbg", J::Str(format!("{:?}", other)))]),
        }
    }

    fn call_info(&self, func: &Operand<'tcx>, o: &mut Vec<(&'static str, J)>) {
        if let Operand::Constant(c) = func {
            if let ty::FnDef(did, args) = *c.const_.ty().kind() {
                o.push(("callee", J::Str(defpath(self.tcx, did))));
                o.push(("callee_local", J::Bool(did.is_local())));
                o.push(("gargs", gargs_json(args)));
                let flags = self.tcx.codegen_fn_attrs(did).flags;
                o.push(("track_caller", J::Bool(flags.contains(CodegenFnAttrFlags::TRACK_CALLER))));
                let k = self.tcx.crate_name(did.krate).to_string();
                o.push(("callee_crate", J::Str(k)));
                if let Some((rd, kind)) = try_resolve(self.tcx, self.owner, did, args) {
                    o.push(("resolved", J::Str(defpath(self.tcx, rd))));
                    o.push(("resolved_kind", J::Str(kind)));
                    o.push(("resolved_local", J::Bool(rd.is_local())));
                    let rf = self.tcx.codegen_fn_attrs(rd).flags;
                    o.push(("resolved_track_caller", J::Bool(rf.contains(CodegenFnAttrFlags::TRACK_CALLER))));
                }
                return;
            }
        }
        o.push(("callee", J::Null));
        o.push(("func", self.operand(func)));
    }

    fn dump(&self) -> J {
        let body = self.body;
        let mut locals = Vec::new();
        let mut names: Vec<Option<String>> = vec![None; body.local_decls.len()];
        for vdi in &body.var_debug_info {
            if let mir::VarDebugInfoContents::Place(p) = &vdi.value {
                if p.projection.is_empty() {
                    names[p.local.as_usize()] = Some(vdi.name.to_string());
                }
            }
        }
        for (l, d) in body.local_decls.iter_enumerated() {
            locals.push(J::obj(vec![
                ("ty", J::Str(tys(d.ty))),
                ("name", match &names[l.as_usize()] { Some(n) => J::Str(n.clone()), None => J::Null }),
                ("user", J::Bool(d.is_user_variable())),
            ]));
        }
        let mut blocks = Vec::new();
        for (_bb, data) in body.basic_blocks.iter_enumerated() {
            let mut stmts = Vec::new();
            for s in &data.statements {
                match &s.kind {
                    StatementKind::Assign(b) => {
                        stmts.push(J::obj(vec![
                            ("k", J::s("Assign")),
                            ("pl", self.place(&b.0)),
                            ("rv", self.rvalue(&b.1)),
                            ("sp", span_json(self.tcx, s.source_info.span)),
                            ("exp", J::Bool(s.source_info.span.from_expansion())),
                        ]));
                    }
                    StatementKind::SetDiscriminant { place, variant_index } => {
                        stmts.push(J::obj(vec![
                            ("k", J::s("SetDiscriminant")),
                            ("pl", self.place(place)),
                            ("v", J::Num(variant_index.as_u32() as i128)),
                        ]));
                    }
                    StatementKind::Intrinsic(i) => {
                        stmts.push(J::obj(vec![("k", J::s("Intrinsic")), ("dbg", J::Str(format!("{:?}", i)))]));
                    }
                    _ => {}
                }
            }
            let term = data.terminator();
            let mut o: Vec<(&'static str, J)> = Vec::new();
            match &term.kind {
                TerminatorKind::Goto { target } => {
                    o.push(("k", J::s("Goto")));
                    o.push(("targets", J::Arr(vec![J::Num(target.as_u32() as i128)])));
                }
                TerminatorKind::SwitchInt { discr, targets } => {
                    o.push(("k", J::s("SwitchInt")));
                    o.push(("discr", self.operand(discr)));
                    let mut vals = Vec::new();
                    let mut tg = Vec::new();
                    for (v, t) in targets.iter() {
                        vals.push(J::Num(v as i128));
                        tg.push(J::Num(t.as_u32() as i128));
                    }
                    tg.push(J::Num(targets.otherwise().as_u32() as i128));
                    o.push(("values", J::Arr(vals)));
                    o.push(("targets", J::Arr(tg)));
                }
                TerminatorKind::Return => o.push(("k", J::s("Return"))),
                TerminatorKind::Unreachable => o.push(("k", J::s("Unreachable"))),
                TerminatorKind::UnwindResume => o.push(("k", J::s("UnwindResume"))),
                TerminatorKind::UnwindTerminate(_) => o.push(("k", J::s("UnwindTerminate"))),
                TerminatorKind::Drop { place, target, unwind, .. } => {
                    o.push(("k", J::s("Drop")));
                    o.push(("pl", self.place(place)));
                    o.push(("targets", J::Arr(vec![J::Num(target.as_u32() as i128)])));
                    if let mir::UnwindAction::Cleanup(c) = unwind {
                        o.push(("cleanup", J::Num(c.as_u32() as i128)));
                    }
                }
                TerminatorKind::Call { func, args, destination, target, unwind, fn_span, .. } => {
                    o.push(("k", J::s("Call")));
                    self.call_info(func, &mut o);
                    o.push(("args", J::Arr(args.iter().map(|a| self.operand(&a.node)).collect())));
                    o.push(("dest", self.place(destination)));
                    o.push(("targets", J::Arr(match target { Some(t) => vec![J::Num(t.as_u32() as i128)], None => vec![] })));
                    if let mir::UnwindAction::Cleanup(c) = unwind {
                        o.push(("cleanup", J::Num(c.as_u32() as i128)));
                    }
                    o.push(("fn_sp", span_json(self.tcx, *fn_span)));
                }
                TerminatorKind::TailCall { func, args, .. } => {
                    o.push(("k", J::s("TailCall")));
                    self.call_info(func, &mut o);
                    o.push(("args", J::Arr(args.iter().map(|a| self.operand(&a.node)).collect())));
                }
                TerminatorKind::Assert { cond, expected, msg, target, unwind } => {
                    o.push(("k", J::s("Assert")));
                    o.push(("cond", self.operand(cond)));
                    o.push(("expected", J::Bool(*expected)));
                    let (kind, ops): (String, Vec<J>) = match &**msg {
                        mir::AssertKind::BoundsCheck { len, index } => ("BoundsCheck".into(), vec![self.operand(len), self.operand(index)]),
                        mir::AssertKind::Overflow(op, a, b) => (format!("Overflow:{:?}", op), vec![self.operand(a), self.operand(b)]),
                        mir::AssertKind::OverflowNeg(a) => ("OverflowNeg".into(), vec![self.operand(a)]),
                        mir::AssertKind::DivisionByZero(a) => ("DivisionByZero".into(), vec![self.operand(a)]),
                        mir::AssertKind::RemainderByZero(a) => ("RemainderByZero".into(), vec![self.operand(a)]),
                        other => (format!("{:?}", other).split(|c| c == '(' || c == ' ' || c == '{').next().unwrap().to_string(), vec![]),
                    };
                    o.push(("assert", J::Str(kind)));
                    o.push(("ops", J::Arr(ops)));
                    o.push(("targets", J::Arr(vec![J::Num(target.as_u32() as i128)])));
                    if let mir::UnwindAction::Cleanup(c) = unwind {
                        o.push(("cleanup", J::Num(c.as_u32() as i128)));
                    }
                }
                TerminatorKind::Yield { value, resume, drop, .. } => {
                    o.push(("k", J::s("Yield")));
                    o.push(("value", self.operand(value)));
                    o.push(("targets", J::Arr(vec![J::Num(resume.as_u32() as i128)])));
                    if let Some(d) = drop {
                        o.push(("drop", J::Num(d.as_u32() as i128)));
                    }
                }
                TerminatorKind::CoroutineDrop => o.push(("k", J::s("CoroutineDrop"))),
                TerminatorKind::FalseEdge { real_target, imaginary_target } => {
                    o.push(("k", J::s("FalseEdge")));
                    o.push(("targets", J::Arr(vec![J::Num(real_target.as_u32() as i128)])));
                    o.push(("imaginary", J::Num(imaginary_target.as_u32() as i128)));
                }
                TerminatorKind::FalseUnwind { real_target, .. } => {
                    o.push(("k", J::s("FalseUnwind")));
                    o.push(("targets", J::Arr(vec![J::Num(real_target.as_u32() as i128)])));
                }
                TerminatorKind::InlineAsm { .. } => o.push(("k", J::s("InlineAsm"))),
            }
            o.push(("sp", span_json(self.tcx, term.source_info.span)));
            o.push(("exp", J::Bool(term.source_info.span.from_expansion())));
            blocks.push(J::obj(vec![
                ("stmts", J::Arr(stmts)),
                ("term", J::obj(o)),
                ("cleanup", J::Bool(data.is_cleanup)),
            ]));
        }
        J::obj(vec![
            ("def", J::Str(defpath(self.tcx, self.owner.to_def_id()))),
            ("arg_count", J::Num(body.arg_count as i128)),
            ("locals", J::Arr(locals)),
            ("blocks", J::Arr(blocks)),
            ("sp", span_json(self.tcx, body.span)),
            ("exp", J::Bool(body.span.from_expansion())),
            ("coroutine", J::Bool(body.coroutine.is_some())),
        ])
    }
}

/// Clone the body before anything can steal it (resolving through `impl Trait`
/// return types runs borrowck, which steals `mir_built`).
pub fn grab_mir<'tcx>(tcx: TyCtxt<'tcx>, owner: LocalDefId) -> mir::Body<'tcx> {
    let steal = tcx.mir_built(owner);
    let body = steal.borrow();
    body.clone()
}

pub fn dump_mir<'tcx>(tcx: TyCtxt<'tcx>, owner: LocalDefId, body: &mir::Body<'tcx>) -> J {
    let m = M { tcx, owner, body };
    m.dump()
}
