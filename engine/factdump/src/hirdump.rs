//! Re-sugared, type-checked HIR -> JSON.
use crate::json::J;
use crate::{defpath, span_json};
use rustc_hir as hir;
use rustc_hir::def::{DefKind, Res};
use rustc_hir::def_id::{DefId, LocalDefId};
use rustc_hir::{ExprKind, LoopSource, MatchSource, PatKind, StmtKind};
use rustc_middle::ty::{self, TyCtxt, TypeckResults};

pub struct Cx<'tcx> {
    pub tcx: TyCtxt<'tcx>,
    pub tr: &'tcx TypeckResults<'tcx>,
    pub owner: LocalDefId,
}

fn tys<'tcx>(t: ty::Ty<'tcx>) -> String {
    crate::pp!(t.to_string())
}

pub fn gargs_json<'tcx>(args: ty::GenericArgsRef<'tcx>) -> J {
    J::Arr(
        args.iter()
            .map(|a| J::Str(crate::pp!(a.to_string())))
            .collect(),
    )
}

pub fn try_resolve<'tcx>(
    tcx: TyCtxt<'tcx>,
    owner: LocalDefId,
    did: DefId,
    args: ty::GenericArgsRef<'tcx>,
) -> Option<(DefId, String)> {
    if !matches!(tcx.def_kind(did), DefKind::Fn | DefKind::AssocFn) {
        return None;
    }
    if tcx.generics_of(did).count() != args.len() {
        return None;
    }
    let args = tcx.erase_and_anonymize_regions(args);
    if args.iter().any(|a| {
        let s = format!("{:?}", a);
        s.contains("?") || s.contains("{type error}")
    }) {
        return None;
    }
    let env = ty::TypingEnv::post_analysis(tcx, owner.to_def_id());
    match ty::Instance::try_resolve(tcx, env, did, args) {
        Ok(Some(inst)) => {
            let d = inst.def_id();
            Some((d, format!("{:?}", inst.def).split('(').next().unwrap_or("").to_string()))
        }
        _ => None,
    }
}

impl<'tcx> Cx<'tcx> {
    fn hid(&self, id: hir::HirId) -> String {
        format!("{}.{}", defpath(self.tcx, id.owner.to_def_id()), id.local_id.as_u32())
    }

    fn res(&self, res: Res, at: hir::HirId, with_args: bool) -> J {
        match res {
            Res::Local(id) => J::obj(vec![
                ("r", J::s("Local")),
                ("id", J::Str(self.hid(id))),
                ("name", J::Str(self.tcx.hir_name(id).to_string())),
            ]),
            Res::Def(dk, did) => {
                let mut o = vec![
                    ("r", J::s("Def")),
                    ("dk", J::Str(format!("{:?}", dk))),
                    ("path", J::Str(defpath(self.tcx, did))),
                    ("local", J::Bool(did.is_local())),
                ];
                if with_args {
                    let args = self.tr.node_args(at);
                    if !args.is_empty() {
                        o.push(("gargs", gargs_json(args)));
                    }
                    if let Some((rd, kind)) = try_resolve(self.tcx, self.owner, did, args) {
                        o.push(("resolved", J::Str(defpath(self.tcx, rd))));
                        o.push(("resolved_kind", J::Str(kind)));
                    }
                }
                if matches!(dk, DefKind::Const { .. } | DefKind::AssocConst { .. }) {
                    if let Some(v) = self.const_val(did) {
                        o.push(("value", J::Num(v)));
                    }
                }
                if let DefKind::Ctor(..) = dk {
                    // parent variant/struct path is the def path of the ctor already
                }
                J::obj(o)
            }
            Res::SelfCtor(did) => J::obj(vec![("r", J::s("SelfCtor")), ("path", J::Str(defpath(self.tcx, did)))]),
            other => J::obj(vec![("r", J::s("Other")), ("dbg", J::Str(format!("{:?}", other)))]),
        }
    }

    fn const_val(&self, did: DefId) -> Option<i128> {
        // only closed integer constants
        let g = self.tcx.generics_of(did);
        if g.count() != 0 {
            return None;
        }
        let t = self.tcx.type_of(did).instantiate_identity().skip_norm_wip();
        if !t.is_integral() && !t.is_bool() {
            return None;
        }
        match self.tcx.const_eval_poly(did) {
            Ok(v) => v.try_to_scalar_int().map(|s| s.to_uint(s.size()) as i128),
            Err(_) => None,
        }
    }

    fn lit(&self, l: &hir::Lit, neg: bool) -> J {
        use rustc_ast::LitKind;
        match &l.node {
            LitKind::Str(s, _) => J::obj(vec![("t", J::s("str")), ("v", J::Str(s.to_string()))]),
            LitKind::ByteStr(b, _) | LitKind::CStr(b, _) => J::obj(vec![
                ("t", J::s("bytestr")),
                ("v", J::Arr(b.as_byte_str().iter().map(|x| J::Num(*x as i128)).collect())),
            ]),
            LitKind::Byte(b) => J::obj(vec![("t", J::s("byte")), ("v", J::Num(*b as i128))]),
            LitKind::Char(c) => J::obj(vec![("t", J::s("char")), ("v", J::Num(*c as u32 as i128))]),
            LitKind::Int(n, _) => {
                let v = n.get() as i128;
                J::obj(vec![("t", J::s("int")), ("v", J::Num(if neg { -v } else { v }))])
            }
            LitKind::Float(s, _) => J::obj(vec![
                ("t", J::s("float")),
                ("v", J::Str(format!("{}{}", if neg { "-" } else { "" }, s))),
            ]),
            LitKind::Bool(b) => J::obj(vec![("t", J::s("bool")), ("v", J::Bool(*b))]),
            LitKind::Err(_) => J::obj(vec![("t", J::s("err"))]),
        }
    }

    fn snippet(&self, sp: rustc_span::Span) -> Option<String> {
        self.tcx.sess.source_map().span_to_snippet(sp).ok()
    }

    pub fn pat(&self, p: &hir::Pat<'tcx>) -> J {
        let mut o: Vec<(&str, J)> = Vec::new();
        match p.kind {
            PatKind::Wild => o.push(("k", J::s("Wild"))),
            PatKind::Missing => o.push(("k", J::s("Missing"))),
            PatKind::Never => o.push(("k", J::s("Never"))),
            PatKind::Binding(mode, id, ident, sub) => {
                o.push(("k", J::s("Bind")));
                o.push(("id", J::Str(self.hid(id))));
                o.push(("name", J::Str(ident.name.to_string())));
                o.push(("mode", J::Str(format!("{:?}", mode))));
                if let Some(s) = sub {
                    o.push(("sub", self.pat(s)));
                }
            }
            PatKind::Struct(ref qp, fields, rest) => {
                o.push(("k", J::s("Struct")));
                o.push(("res", self.res(self.tr.qpath_res(qp, p.hir_id), p.hir_id, false)));
                o.push((
                    "fields",
                    J::Arr(
                        fields
                            .iter()
                            .map(|f| J::obj(vec![("name", J::Str(f.ident.name.to_string())), ("pat", self.pat(f.pat))]))
                            .collect(),
                    ),
                ));
                o.push(("rest", J::Bool(rest.is_some())));
            }
            PatKind::TupleStruct(ref qp, pats, dd) => {
                o.push(("k", J::s("TupleStruct")));
                o.push(("res", self.res(self.tr.qpath_res(qp, p.hir_id), p.hir_id, false)));
                o.push(("pats", J::Arr(pats.iter().map(|x| self.pat(x)).collect())));
                o.push(("ddpos", match dd.as_opt_usize() { Some(n) => J::Num(n as i128), None => J::Null }));
            }
            PatKind::Or(pats) => {
                o.push(("k", J::s("Or")));
                o.push(("pats", J::Arr(pats.iter().map(|x| self.pat(x)).collect())));
            }
            PatKind::Tuple(pats, dd) => {
                o.push(("k", J::s("Tuple")));
                o.push(("pats", J::Arr(pats.iter().map(|x| self.pat(x)).collect())));
                o.push(("ddpos", match dd.as_opt_usize() { Some(n) => J::Num(n as i128), None => J::Null }));
            }
            PatKind::Box(x) => {
                o.push(("k", J::s("Box")));
                o.push(("pat", self.pat(x)));
            }
            PatKind::Deref(x) => {
                o.push(("k", J::s("Deref")));
                o.push(("pat", self.pat(x)));
            }
            PatKind::Ref(x, _, m) => {
                o.push(("k", J::s("Ref")));
                o.push(("mut", J::Bool(m.is_mut())));
                o.push(("pat", self.pat(x)));
            }
            PatKind::Expr(e) => {
                self.pat_expr(e, &mut o);
            }
            PatKind::Guard(x, g) => {
                o.push(("k", J::s("Guard")));
                o.push(("pat", self.pat(x)));
                o.push(("guard", self.expr(g)));
            }
            PatKind::Range(lo, hi, end) => {
                o.push(("k", J::s("Range")));
                let f = |e: Option<&hir::PatExpr<'tcx>>| match e {
                    Some(e) => {
                        let mut oo = Vec::new();
                        self.pat_expr(e, &mut oo);
                        J::obj(oo)
                    }
                    None => J::Null,
                };
                o.push(("lo", f(lo)));
                o.push(("hi", f(hi)));
                o.push(("incl", J::Bool(matches!(end, hir::RangeEnd::Included))));
            }
            PatKind::Slice(before, mid, after) => {
                o.push(("k", J::s("Slice")));
                o.push(("before", J::Arr(before.iter().map(|x| self.pat(x)).collect())));
                o.push(("slice", match mid { Some(m) => self.pat(m), None => J::Null }));
                o.push(("after", J::Arr(after.iter().map(|x| self.pat(x)).collect())));
            }
            PatKind::Err(_) => o.push(("k", J::s("Err"))),
        }
        o.push(("ty", J::Str(tys(self.tr.pat_ty(p)))));
        o.push(("sp", span_json(self.tcx, p.span)));
        J::obj(o)
    }

    fn pat_expr(&self, e: &hir::PatExpr<'tcx>, o: &mut Vec<(&str, J)>) {
        match &e.kind {
            hir::PatExprKind::Lit { lit, negated } => {
                o.push(("k", J::s("Lit")));
                o.push(("lit", self.lit(lit, *negated)));
            }
            hir::PatExprKind::Path(qp) => {
                o.push(("k", J::s("PathPat")));
                o.push(("res", self.res(self.tr.qpath_res(qp, e.hir_id), e.hir_id, false)));
            }
        }
    }

    fn block(&self, b: &hir::Block<'tcx>) -> J {
        let mut stmts = Vec::new();
        for s in b.stmts {
            match s.kind {
                StmtKind::Let(l) => {
                    let mut o = vec![("k", J::s("Let")), ("pat", self.pat(l.pat))];
                    if let Some(i) = l.init {
                        o.push(("init", self.expr(i)));
                    }
                    if let Some(e) = l.els {
                        o.push(("els", self.block(e)));
                    }
                    o.push(("sp", span_json(self.tcx, s.span)));
                    stmts.push(J::obj(o));
                }
                StmtKind::Item(_) => {}
                StmtKind::Expr(e) => stmts.push(J::obj(vec![("k", J::s("Expr")), ("e", self.expr(e))])),
                StmtKind::Semi(e) => stmts.push(J::obj(vec![("k", J::s("Semi")), ("e", self.expr(e))])),
            }
        }
        J::obj(vec![
            ("k", J::s("Block")),
            ("stmts", J::Arr(stmts)),
            ("expr", match b.expr { Some(e) => self.expr(e), None => J::Null }),
            ("sp", span_json(self.tcx, b.span)),
        ])
    }

    fn strip_drop_temps<'a>(&self, e: &'a hir::Expr<'tcx>) -> &'a hir::Expr<'tcx> {
        let mut e = e;
        while let ExprKind::DropTemps(inner) = e.kind {
            e = inner;
        }
        e
    }

    pub fn expr(&self, e: &hir::Expr<'tcx>) -> J {
        let mut o: Vec<(&str, J)> = Vec::new();
        match e.kind {
            ExprKind::DropTemps(inner) | ExprKind::Use(inner, _) => return self.expr(inner),
            ExprKind::Type(inner, _) => return self.expr(inner),
            ExprKind::Lit(l) => {
                o.push(("k", J::s("Lit")));
                o.push(("lit", self.lit(&l, false)));
            }
            ExprKind::Path(ref qp) => {
                o.push(("k", J::s("Path")));
                o.push(("res", self.res(self.tr.qpath_res(qp, e.hir_id), e.hir_id, true)));
            }
            ExprKind::Call(f, args) => {
                o.push(("k", J::s("Call")));
                if let ExprKind::Path(ref qp) = f.kind {
                    let r = self.tr.qpath_res(qp, f.hir_id);
                    if let Res::Def(dk, did) = r {
                        if matches!(dk, DefKind::Fn | DefKind::AssocFn | DefKind::Ctor(..)) {
                            o.push(("callee", J::Str(defpath(self.tcx, did))));
                            o.push(("callee_kind", J::Str(format!("{:?}", dk))));
                            o.push(("callee_local", J::Bool(did.is_local())));
                            let ga = self.tr.node_args(f.hir_id);
                            o.push(("gargs", gargs_json(ga)));
                            if let Some((rd, kind)) = try_resolve(self.tcx, self.owner, did, ga) {
                                o.push(("resolved", J::Str(defpath(self.tcx, rd))));
                                o.push(("resolved_kind", J::Str(kind)));
                            }
                        }
                    }
                }
                o.push(("f", self.expr(f)));
                o.push(("args", J::Arr(args.iter().map(|a| self.expr(a)).collect())));
            }
            ExprKind::MethodCall(seg, recv, args, _) => {
                o.push(("k", J::s("MethodCall")));
                o.push(("name", J::Str(seg.ident.name.to_string())));
                if let Some(did) = self.tr.type_dependent_def_id(e.hir_id) {
                    o.push(("callee", J::Str(defpath(self.tcx, did))));
                    o.push(("callee_local", J::Bool(did.is_local())));
                    let ga = self.tr.node_args(e.hir_id);
                    o.push(("gargs", gargs_json(ga)));
                    if let Some((rd, kind)) = try_resolve(self.tcx, self.owner, did, ga) {
                        o.push(("resolved", J::Str(defpath(self.tcx, rd))));
                        o.push(("resolved_kind", J::Str(kind)));
                    }
                }
                o.push(("recv", self.expr(recv)));
                o.push(("args", J::Arr(args.iter().map(|a| self.expr(a)).collect())));
            }
            ExprKind::Tup(es) => {
                o.push(("k", J::s("Tup")));
                o.push(("es", J::Arr(es.iter().map(|a| self.expr(a)).collect())));
            }
            ExprKind::Array(es) => {
                o.push(("k", J::s("Array")));
                o.push(("es", J::Arr(es.iter().map(|a| self.expr(a)).collect())));
            }
            ExprKind::Binary(op, l, r) => {
                o.push(("k", J::s("Binary")));
                o.push(("op", J::Str(format!("{:?}", op.node))));
                if let Some(did) = self.tr.type_dependent_def_id(e.hir_id) {
                    o.push(("callee", J::Str(defpath(self.tcx, did))));
                }
                o.push(("l", self.expr(l)));
                o.push(("r", self.expr(r)));
            }
            ExprKind::Unary(op, x) => {
                o.push(("k", J::s("Unary")));
                o.push(("op", J::Str(format!("{:?}", op))));
                if let Some(did) = self.tr.type_dependent_def_id(e.hir_id) {
                    o.push(("callee", J::Str(defpath(self.tcx, did))));
                }
                o.push(("e", self.expr(x)));
            }
            ExprKind::Cast(x, _) => {
                o.push(("k", J::s("Cast")));
                o.push(("e", self.expr(x)));
            }
            ExprKind::Let(l) => {
                o.push(("k", J::s("LetCond")));
                o.push(("pat", self.pat(l.pat)));
                o.push(("init", self.expr(l.init)));
            }
            ExprKind::If(c, t, el) => {
                o.push(("k", J::s("If")));
                o.push(("cond", self.expr(c)));
                o.push(("then", self.expr(t)));
                o.push(("else", match el { Some(x) => self.expr(x), None => J::Null }));
            }
            ExprKind::Loop(b, label, src, _) => {
                let mut done = false;
                if let LoopSource::While = src {
                    if let (true, Some(tail)) = (b.stmts.is_empty(), b.expr) {
                        if let ExprKind::If(c, t, Some(_)) = self.strip_drop_temps(tail).kind {
                            o.push(("k", J::s("While")));
                            o.push(("cond", self.expr(c)));
                            o.push(("body", self.expr(t)));
                            done = true;
                        }
                    }
                }
                if !done {
                    o.push(("k", J::s("Loop")));
                    o.push(("src", J::Str(format!("{:?}", src))));
                    o.push(("body", self.block(b)));
                }
                if let Some(l) = label {
                    o.push(("label", J::Str(l.ident.name.to_string())));
                }
            }
            ExprKind::Match(scrut, arms, src) => {
                let mut done = false;
                match src {
                    MatchSource::TryDesugar(_) => {
                        if let ExprKind::Call(_, [inner]) = scrut.kind {
                            o.push(("k", J::s("Try")));
                            o.push(("e", self.expr(inner)));
                            // the Break arm: `return from_residual(r)`; its type is the function's
                            // (or closure's / try block's) result type
                            if let Some(arm) = arms.iter().find(|a| matches!(self.strip_drop_temps(a.body).kind, ExprKind::Ret(_) | ExprKind::Break(..))) {
                                let mut b = self.strip_drop_temps(arm.body);
                                if let ExprKind::Ret(Some(x)) | ExprKind::Break(_, Some(x)) = b.kind {
                                    b = x;
                                }
                                o.push(("to_ty", J::Str(tys(self.tr.expr_ty(b)))));
                            }
                            done = true;
                        }
                    }
                    MatchSource::AwaitDesugar => {
                        if let ExprKind::Call(_, [inner]) = scrut.kind {
                            o.push(("k", J::s("Await")));
                            o.push(("e", self.expr(inner)));
                            done = true;
                        }
                    }
                    MatchSource::ForLoopDesugar => {
                        if let (ExprKind::Call(_, [iter]), [arm]) = (&scrut.kind, arms) {
                            if let ExprKind::Loop(lb, _, _, _) = self.strip_drop_temps(arm.body).kind {
                                if let Some(st) = lb.stmts.first() {
                                    if let StmtKind::Expr(m) | StmtKind::Semi(m) = st.kind {
                                        if let ExprKind::Match(_, [_none, some], _) = m.kind {
                                            let inner_pat = match some.pat.kind {
                                                PatKind::TupleStruct(_, [p], _) => Some(p),
                                                PatKind::Struct(_, [f], _) => Some(f.pat),
                                                _ => None,
                                            };
                                            if let Some(p) = inner_pat {
                                                o.push(("k", J::s("For")));
                                                o.push(("pat", self.pat(p)));
                                                o.push(("iter", self.expr(iter)));
                                                o.push(("body", self.expr(some.body)));
                                                done = true;
                                            }
                                        }
                                    }
                                }
                            }
                        }
                    }
                    _ => {}
                }
                if !done {
                    o.push(("k", J::s("Match")));
                    o.push(("src", J::Str(format!("{:?}", src).split('(').next().unwrap().to_string())));
                    o.push(("scrut", self.expr(scrut)));
                    o.push((
                        "arms",
                        J::Arr(
                            arms.iter()
                                .map(|a| {
                                    J::obj(vec![
                                        ("pat", self.pat(a.pat)),
                                        ("guard", match a.guard { Some(g) => self.expr(g), None => J::Null }),
                                        ("body", self.expr(a.body)),
                                    ])
                                })
                                .collect(),
                        ),
                    ));
                }
            }
            ExprKind::Closure(c) => {
                let body = self.tcx.hir_body(c.body);
                o.push(("k", J::s("Closure")));
                o.push(("def", J::Str(defpath(self.tcx, c.def_id.to_def_id()))));
                o.push(("ckind", J::Str(format!("{:?}", c.kind))));
                o.push(("capture", J::Str(format!("{:?}", c.capture_clause).split('{').next().unwrap().trim().to_string())));
                o.push(("params", J::Arr(body.params.iter().map(|p| self.pat(p.pat)).collect())));
                o.push(("body", self.expr(body.value)));
            }
            ExprKind::Block(b, label) => {
                let mut bj = self.block(b);
                if let (J::Obj(v), Some(l)) = (&mut bj, label) {
                    v.push(("label".into(), J::Str(l.ident.name.to_string())));
                }
                if let J::Obj(v) = &mut bj {
                    v.push(("ty".into(), J::Str(tys(self.tr.expr_ty(e)))));
                    v.push(("rules".into(), J::Str(format!("{:?}", b.rules))));
                }
                return bj;
            }
            ExprKind::Assign(l, r, _) => {
                o.push(("k", J::s("Assign")));
                o.push(("l", self.expr(l)));
                o.push(("r", self.expr(r)));
            }
            ExprKind::AssignOp(op, l, r) => {
                o.push(("k", J::s("AssignOp")));
                o.push(("op", J::Str(format!("{:?}", op.node))));
                o.push(("l", self.expr(l)));
                o.push(("r", self.expr(r)));
            }
            ExprKind::Field(x, ident) => {
                o.push(("k", J::s("Field")));
                o.push(("name", J::Str(ident.name.to_string())));
                o.push(("e", self.expr(x)));
            }
            ExprKind::Index(x, i, _) => {
                o.push(("k", J::s("Index")));
                if let Some(did) = self.tr.type_dependent_def_id(e.hir_id) {
                    o.push(("callee", J::Str(defpath(self.tcx, did))));
                }
                o.push(("e", self.expr(x)));
                o.push(("i", self.expr(i)));
            }
            ExprKind::AddrOf(_, m, x) => {
                o.push(("k", J::s("AddrOf")));
                o.push(("mut", J::Bool(m.is_mut())));
                o.push(("e", self.expr(x)));
            }
            ExprKind::Break(dest, x) => {
                o.push(("k", J::s("Break")));
                if let Some(l) = dest.label {
                    o.push(("label", J::Str(l.ident.name.to_string())));
                }
                o.push(("e", match x { Some(x) => self.expr(x), None => J::Null }));
            }
            ExprKind::Continue(dest) => {
                o.push(("k", J::s("Continue")));
                if let Some(l) = dest.label {
                    o.push(("label", J::Str(l.ident.name.to_string())));
                }
            }
            ExprKind::Ret(x) => {
                o.push(("k", J::s("Ret")));
                o.push(("e", match x { Some(x) => self.expr(x), None => J::Null }));
            }
            ExprKind::Struct(qp, fields, tail) => {
                o.push(("k", J::s("Struct")));
                o.push(("res", self.res(self.tr.qpath_res(qp, e.hir_id), e.hir_id, false)));
                o.push((
                    "fields",
                    J::Arr(
                        fields
                            .iter()
                            .map(|f| J::obj(vec![("name", J::Str(f.ident.name.to_string())), ("e", self.expr(f.expr))]))
                            .collect(),
                    ),
                ));
                if let hir::StructTailExpr::Base(b) = tail {
                    o.push(("base", self.expr(b)));
                }
            }
            ExprKind::Repeat(x, _) => {
                o.push(("k", J::s("Repeat")));
                o.push(("e", self.expr(x)));
            }
            ExprKind::Yield(x, _) => {
                o.push(("k", J::s("Yield")));
                o.push(("e", self.expr(x)));
            }
            ExprKind::ConstBlock(_) => o.push(("k", J::s("ConstBlock"))),
            ExprKind::Become(x) => {
                o.push(("k", J::s("Become")));
                o.push(("e", self.expr(x)));
            }
            ExprKind::InlineAsm(_) => o.push(("k", J::s("InlineAsm"))),
            ExprKind::OffsetOf(..) => o.push(("k", J::s("OffsetOf"))),
            ExprKind::UnsafeBinderCast(_, x, _) => {
                o.push(("k", J::s("UnsafeBinderCast")));
                o.push(("e", self.expr(x)));
            }
            ExprKind::Err(_) => o.push(("k", J::s("Err"))),
        }
        let t = self.tr.expr_ty(e);
        o.push(("ty", J::Str(tys(t))));
        let at = self.tr.expr_ty_adjusted(e);
        if at != t {
            o.push(("aty", J::Str(tys(at))));
            let adj: Vec<J> = self
                .tr
                .expr_adjustments(e)
                .iter()
                .map(|a| J::Str(format!("{:?}", a.kind).split('(').next().unwrap().to_string()))
                .collect();
            o.push(("adj", J::Arr(adj)));
        }
        o.push(("sp", span_json(self.tcx, e.span)));
        if e.span.from_expansion() {
            o.push(("exp", J::Bool(true)));
            // macro call-site text, for reading `write!` templates
            let cs = e.span.source_callsite();
            if let ExprKind::Call(..) | ExprKind::MethodCall(..) = e.kind {
                if let Some(s) = self.snippet(cs) {
                    if s.len() < 400 {
                        o.push(("callsite", J::Str(s)));
                    }
                }
            }
        }
        J::obj(o)
    }
}

pub fn dump_body<'tcx>(tcx: TyCtxt<'tcx>, owner: LocalDefId) -> J {
    let did = owner.to_def_id();
    let tr = tcx.typeck(owner);
    let body = tcx.hir_body_owned_by(owner);
    let cx = Cx { tcx, tr, owner };
    let dk = tcx.def_kind(did);
    let mut o = vec![
        ("def", J::Str(defpath(tcx, did))),
        ("kind", J::Str(format!("{:?}", dk))),
        ("sp", span_json(tcx, tcx.def_span(did))),
        ("exp", J::Bool(tcx.def_span(did).from_expansion())),
        ("vis", J::Str(if matches!(dk, DefKind::Fn | DefKind::AssocFn) { format!("{:?}", tcx.visibility(did)) } else { String::new() })),
    ];
    if matches!(dk, DefKind::Fn | DefKind::AssocFn) {
        let sig = tcx.fn_sig(did).instantiate_identity().skip_norm_wip();
        o.push(("sig", J::Str(crate::pp!(sig.to_string()))));
        o.push(("ret", J::Str(tys(sig.output().skip_binder()))));
        o.push(("is_async", J::Bool(tcx.asyncness(did).is_async())));
        // names of all generic parameters (parents first), in the order of the `gargs` recorded at call sites
        let g = tcx.generics_of(did);
        let mut names = vec![];
        for i in 0..g.count() {
            names.push(J::Str(g.param_at(i, tcx).name.to_string()));
        }
        o.push(("generics", J::Arr(names)));
        if let Some(assoc) = tcx.opt_associated_item(did) {
            let parent = tcx.parent(did);
            match tcx.def_kind(parent) {
                DefKind::Impl { of_trait } => {
                    o.push(("impl", J::Str(defpath(tcx, parent))));
                    o.push(("self_ty", J::Str(tys(tcx.type_of(parent).instantiate_identity().skip_norm_wip()))));
                    if of_trait {
                        let trr = tcx.impl_trait_ref(parent).instantiate_identity().skip_norm_wip();
                        o.push(("trait", J::Str(defpath(tcx, trr.def_id))));
                        o.push(("trait_ref", J::Str(crate::pp!(trr.to_string()))));
                    }
                }
                DefKind::Trait => {
                    o.push(("trait_default", J::Str(defpath(tcx, parent))));
                }
                _ => {}
            }
            o.push(("name", J::Str(assoc.name().to_string())));
        }
    }
    if matches!(dk, DefKind::Static { .. } | DefKind::Const { .. } | DefKind::AssocConst { .. }) {
        o.push(("ty", J::Str(tys(tcx.type_of(did).instantiate_identity().skip_norm_wip()))));
    }
    o.push(("params", J::Arr(body.params.iter().map(|p| cx.pat(p.pat)).collect())));
    o.push(("value", cx.expr(body.value)));
    J::obj(o)
}
