//! factdump: a rustc driver that behaves like rustc and, for the crates named in
//! VERIF_CRATES, writes one JSON fact file per compiled crate into VERIF_FACTS_DIR.
//! It contains no analysis logic: it dumps re-sugared, type-checked HIR and `mir_built`.
#![feature(rustc_private)]
#![allow(clippy::all)]

extern crate rustc_abi;
extern crate rustc_ast;
extern crate rustc_driver;
extern crate rustc_hir;
extern crate rustc_interface;
extern crate rustc_middle;
extern crate rustc_session;
extern crate rustc_span;

#[macro_export]
macro_rules! pp {
    ($e:expr) => {
        rustc_middle::ty::print::with_resolve_crate_name!(rustc_middle::ty::print::with_no_visible_paths!(
            rustc_middle::ty::print::with_no_trimmed_paths!($e)
        ))
    };
}

mod hirdump;
mod json;
mod mirdump;

use json::J;
use rustc_driver::Compilation;
use rustc_hir::def::DefKind;
use rustc_interface::interface::Compiler;
use rustc_middle::ty::TyCtxt;

struct Cb;

pub fn defpath(tcx: TyCtxt<'_>, did: rustc_hir::def_id::DefId) -> String {
    crate::pp!(tcx.def_path_str(did))
}

pub fn span_json(tcx: TyCtxt<'_>, sp: rustc_span::Span) -> J {
    let sm = tcx.sess.source_map();
    let root = sp.source_callsite();
    let lo = sm.lookup_char_pos(root.lo());
    let hi = sm.lookup_char_pos(root.hi());
    let file = match &lo.file.name {
        rustc_span::FileName::Real(r) => match r.local_path() {
            Some(p) => p.to_string_lossy().to_string(),
            None => format!("{:?}", lo.file.name),
        },
        other => format!("{:?}", other),
    };
    J::Arr(vec![
        J::Str(file),
        J::Num(lo.line as i128),
        J::Num(lo.col.0 as i128 + 1),
        J::Num(hi.line as i128),
        J::Num(hi.col.0 as i128 + 1),
    ])
}

fn dump_crate(tcx: TyCtxt<'_>) -> J {
    let mut meta = Vec::new();
    let cname = tcx.crate_name(rustc_span::def_id::LOCAL_CRATE).to_string();
    meta.push(("crate".to_string(), J::Str(cname)));
    meta.push(("is_test".into(), J::Bool(tcx.sess.is_test_crate())));
    let ctys: Vec<J> = tcx.crate_types().iter().map(|c| J::Str(format!("{:?}", c))).collect();
    meta.push(("crate_types".into(), J::Arr(ctys)));
    let mut cfgs: Vec<String> = tcx
        .sess
        .config
        .iter()
        .map(|(k, v)| match v {
            Some(v) => format!("{}={}", k, v),
            None => k.to_string(),
        })
        .filter(|s| s.starts_with("feature=") || s == "test" || s.starts_with("panic") || s == "debug_assertions")
        .collect();
    cfgs.sort();
    meta.push(("cfg".into(), J::Arr(cfgs.into_iter().map(J::Str).collect())));
    let krate_attrs = tcx.hir_krate_attrs();
    let mut no_std = false;
    let mut no_core = false;
    for a in krate_attrs {
        let s = format!("{:?}", a);
        if s.contains("NoStd") || a.has_name(rustc_span::sym::no_std) {
            no_std = true;
        }
        if s.contains("NoCore") || a.has_name(rustc_span::sym::no_core) {
            no_core = true;
        }
    }
    meta.push(("no_std".into(), J::Bool(no_std)));
    meta.push(("no_core".into(), J::Bool(no_core)));
    let mut crates = Vec::new();
    for &cn in tcx.crates(()) {
        crates.push(J::obj(vec![
            ("name", J::Str(tcx.crate_name(cn).to_string())),
        ]));
    }
    meta.push(("crates".into(), J::Arr(crates)));

    // extern crate items + items
    let mut extern_crates = Vec::new();
    let mut items = Vec::new();
    for id in tcx.hir_free_items() {
        let item = tcx.hir_item(id);
        let did = item.owner_id.to_def_id();
        match item.kind {
            rustc_hir::ItemKind::ExternCrate(orig, ident) => {
                extern_crates.push(J::obj(vec![
                    ("name", J::Str(ident.name.to_string())),
                    ("orig", match orig { Some(o) => J::Str(o.to_string()), None => J::Null }),
                    ("sp", span_json(tcx, item.span)),
                    ("exp", J::Bool(item.span.from_expansion())),
                ]));
            }
            rustc_hir::ItemKind::Impl(imp) => {
                let mut o = vec![
                    ("k", J::Str("Impl".into())),
                    ("path", J::Str(defpath(tcx, did))),
                    ("sp", span_json(tcx, item.span)),
                    ("exp", J::Bool(item.span.from_expansion())),
                ];
                let self_ty = crate::pp!(
                    tcx.type_of(did).instantiate_identity().skip_norm_wip().to_string()
                );
                o.push(("self_ty", J::Str(self_ty)));
                if let Some(tr) = imp.of_trait {
                    if let Some(tdid) = tr.trait_ref.trait_def_id() {
                        o.push(("trait", J::Str(defpath(tcx, tdid))));
                    }
                    let trr = tcx.impl_trait_ref(did).instantiate_identity().skip_norm_wip();
                    o.push(("trait_ref", J::Str(crate::pp!(trr.to_string()))));
                }
                let mut ms = Vec::new();
                for ii in imp.items {
                    ms.push(J::Str(defpath(tcx, ii.owner_id.to_def_id())));
                }
                o.push(("items", J::Arr(ms)));
                items.push(J::obj(o));
            }
            _ => {
                let dk = tcx.def_kind(did);
                items.push(J::obj(vec![
                    ("k", J::Str(format!("{:?}", dk))),
                    ("path", J::Str(defpath(tcx, did))),
                    ("sp", span_json(tcx, item.span)),
                    ("exp", J::Bool(item.span.from_expansion())),
                ]));
            }
        }
    }
    meta.push(("extern_crates".into(), J::Arr(extern_crates)));

    // enums: variants
    let mut enums = Vec::new();
    for id in tcx.hir_free_items() {
        let item = tcx.hir_item(id);
        if let rustc_hir::ItemKind::Enum(_, _, def) = item.kind {
            let mut vs = Vec::new();
            for v in def.variants {
                vs.push(J::obj(vec![
                    ("name", J::Str(v.ident.name.to_string())),
                    ("fields", J::Num(v.data.fields().len() as i128)),
                ]));
            }
            enums.push(J::obj(vec![
                ("path", J::Str(defpath(tcx, item.owner_id.to_def_id()))),
                ("variants", J::Arr(vs)),
            ]));
        }
    }

    // bodies
    let mut bodies = Vec::new();
    let mut mirs = Vec::new();
    let mut grabbed = Vec::new();
    for owner in tcx.hir_body_owners() {
        let dk = tcx.def_kind(owner.to_def_id());
        if matches!(dk, DefKind::Fn | DefKind::AssocFn | DefKind::Closure) {
            grabbed.push((owner, mirdump::grab_mir(tcx, owner)));
        }
    }
    for (owner, body) in &grabbed {
        mirs.push(mirdump::dump_mir(tcx, *owner, body));
    }
    for owner in tcx.hir_body_owners() {
        let did = owner.to_def_id();
        let dk = tcx.def_kind(did);
        let is_closure = matches!(dk, DefKind::Closure | DefKind::SyntheticCoroutineBody);
        if !is_closure && !matches!(dk, DefKind::AnonConst | DefKind::InlineConst) {
            bodies.push(hirdump::dump_body(tcx, owner));
        }
    }

    let mut top = meta;
    top.push(("items".into(), J::Arr(items)));
    top.push(("enums".into(), J::Arr(enums)));
    top.push(("bodies".into(), J::Arr(bodies)));
    top.push(("mir".into(), J::Arr(mirs)));
    J::Obj(top)
}

impl rustc_driver::Callbacks for Cb {
    fn after_expansion<'tcx>(&mut self, _c: &Compiler, tcx: TyCtxt<'tcx>) -> Compilation {
        let want = std::env::var("VERIF_CRATES").unwrap_or_default();
        let dir = match std::env::var("VERIF_FACTS_DIR") {
            Ok(d) => d,
            Err(_) => return Compilation::Continue,
        };
        let cname = tcx.crate_name(rustc_span::def_id::LOCAL_CRATE).to_string();
        if want != "*" && !want.split(',').any(|w| w == cname) {
            return Compilation::Continue;
        }
        // do not dump when the crate has errors already
        let j = dump_crate(tcx);
        let kind = if tcx.sess.is_test_crate() {
            "test".to_string()
        } else {
            format!("{:?}", tcx.crate_types().first().map(|c| format!("{:?}", c)).unwrap_or_default())
                .trim_matches('"')
                .to_lowercase()
        };
        let path = format!("{}/{}.{}.json", dir, cname, kind);
        let mut s = String::new();
        j.write(&mut s);
        let tmp = format!("{}.tmp{}", path, std::process::id());
        std::fs::write(&tmp, s).expect("write facts");
        std::fs::rename(&tmp, &path).expect("rename facts");
        Compilation::Continue
    }
}

fn main() {
    let mut args: Vec<String> = std::env::args().collect();
    // invoked as: factdump <path-to-rustc> <args...>   (RUSTC_WRAPPER convention)
    if args.len() > 1 && (args[1].ends_with("rustc") || args[1].contains("rustc")) && !args[1].starts_with('-') {
        args.remove(1);
    }
    rustc_driver::run_compiler(&args, &mut Cb);
}
