//! Minimal JSON value + writer (no external crates).
pub enum J {
    Null,
    Bool(bool),
    Num(i128),
    Str(String),
    Arr(Vec<J>),
    Obj(Vec<(String, J)>),
}

impl J {
    pub fn obj(v: Vec<(&str, J)>) -> J {
        J::Obj(v.into_iter().map(|(k, v)| (k.to_string(), v)).collect())
    }
    pub fn s(x: impl Into<String>) -> J {
        J::Str(x.into())
    }
    pub fn opt(x: Option<J>) -> J {
        x.unwrap_or(J::Null)
    }
    pub fn write(&self, out: &mut String) {
        match self {
            J::Null => out.push_str("null"),
            J::Bool(b) => out.push_str(if *b { "true" } else { "false" }),
            J::Num(n) => out.push_str(&n.to_string()),
            J::Str(s) => write_str(s, out),
            J::Arr(a) => {
                out.push('[');
                for (i, x) in a.iter().enumerate() {
                    if i > 0 {
                        out.push(',');
                    }
                    x.write(out);
                }
                out.push(']');
            }
            J::Obj(o) => {
                out.push('{');
                for (i, (k, v)) in o.iter().enumerate() {
                    if i > 0 {
                        out.push(',');
                    }
                    write_str(k, out);
                    out.push(':');
                    v.write(out);
                }
                out.push('}');
            }
        }
    }
}

fn write_str(s: &str, out: &mut String) {
    out.push('"');
    for c in s.chars() {
        match c {
            '"' => out.push_str("\\\""),
            '\\' => out.push_str("\\\\"),
            '\n' => out.push_str("\\n"),
            '\r' => out.push_str("\\r"),
            '\t' => out.push_str("\\t"),
            c if (c as u32) < 0x20 => out.push_str(&format!("\\u{:04x}", c as u32)),
            c => out.push(c),
        }
    }
    out.push('"');
}
