#!/usr/bin/python3
"""Rewrites the seeded-change matrix of DESIGN.md §6.2 from seeded/*/meta.json."""
import glob
import json
import os
import re

V = os.path.dirname(os.path.dirname(os.path.abspath(__file__)))
rows = []
n = caught = 0
for f in sorted(glob.glob(os.path.join(V, "seeded", "*", "meta.json"))):
    d = json.load(open(f))
    name = f.split("/")[-2]
    fired = d.get("checks_fired_quick") or {}
    tgt = d["property"]
    rule = ""
    if tgt in fired and fired[tgt]:
        rule = fired[tgt][0].split(" at ")[0].replace("rule ", "")
    summ = (d.get("summary") or "").replace("\n", " ")
    summ = summ[:170] + ("…" if len(summ) > 170 else "")
    n += 1
    caught += 1 if d.get("caught_by_target_check") and d.get("confirmed_by_me") else 0
    rows.append("| %s | %s | %s | %s |" % (name, summ.replace("|", "/"), rule or "**missed**", ", ".join(sorted(fired))))
table = "| change | what it does | first rule of the target check that reports it | all checks that fire |\n|---|---|---|---|\n" + "\n".join(rows) + "\n"
p = os.path.join(V, "DESIGN.md")
s = open(p).read()
i = s.index("| change | what it does |")
j = s.index("\n\n", i)
s = s[:i] + table.rstrip("\n") + s[j:]
open(p, "w").write(s)
print("%d seeded changes, %d confirmed and caught by their target check" % (n, caught))
