#!/usr/bin/python3
"""Regenerates /verif/MANIFEST.json from the table below (claimed = rule module exists)."""
import json
import os

V = os.path.dirname(os.path.dirname(os.path.abspath(__file__)))

META = {
 "C01": ("translation_validation", "§3 C01",
         "Translation validation of the macro's output against an independent re-implementation of the short/long/optional spelling rule (set equality of the spelled language per witness interface, every spelling and near miss), plus structural rules on the runtime walk (Node::child, header parsers, execute, generated dispatcher). The meaning of the parser combinators (satisfy, take_while, optional, tag) that the skeleton rules build on is read from their own bodies on every run (contract rule PR). The parsed call's query flag and node are tied to what parse consumed (C01-Q). parse resolves a header once, relative to (root, path) (C01-H).",
         "Trusted: rustc front end, factdump, the 30-line oracle. Declaration sets outside the witness families are covered only by the structural rules on the runtime.",
         "translation validation of macro expansion + HIR structural rules"),
 "C02": ("other", "§3 C02",
         "Path-summary rules on Interface::run (path variable is root at entry and after every terminator path, parent header after ';', unchanged for common commands) and on compound_command_program_header (returned header = parent of returned node, start node root iff leading colon); sequential execution by await-in-place. The parsed call's terminated flag and header are tied to what parse consumed, `no call` only for an empty message (C02-F); the buffer discipline of process (one whole message per call of run) is evaluated here as well (C02-K). A unit's response is completed inside execute before the loop goes on (C02-C04X). The emitted trie, whose nodes are the path context, is validated against the declarations on the witness families (C02-T/D).",
         "Trusted: pathsum. Decides the structural conditions on every path of the two functions, not the behaviour of concrete message sequences.",
         "path-summary dataflow over type-checked HIR"),
 "C03": ("other", "§3 C03",
         "Sibling agreement of the conversion impls in value.rs (radix table, Self type, error kinds, no cast), generated-arm argument discipline (arity guard, args.get(j) in order, conversions before the call), recogniser/variant/radix table agreement, argument vector overflow discipline. The meaning of the parser combinators (satisfy, take_while, optional, tag) that the skeleton rules build on is read from their own bodies on every run (contract rule PR). Incomplete discipline of the data recognisers (rule C12-I) is evaluated here as well. The buffer discipline of process is evaluated here as well (C03-K). Exactly one error per faulty unit: the report/skip discipline of run's error paths (C03-C06R).",
         "Numeric exactness of core::num / core::str::parse is trusted.",
         "HIR structural rules + sibling cross-check + byte-class denotation"),
 "C04": ("other", "§3 C04",
         "Format tables of every Response impl (decoded format templates, sentinel decision table, separators), string quoting, newline+flush discipline in execute, writer who-may-call and sibling agreement. The buffer discipline of process (a unit is handed to run once) is evaluated here as well (C04-K). Write impls: write_fmt passes the pieces on without an intermediate of bounded capacity. On no path, the failing ones included, does a shipped writer remove or overwrite what it holds (C04-W receiver-ops).",
         "core::fmt Display output is trusted to decode to the same value.",
         "HIR structural rules + format-template decoding"),
 "C05": ("other", "§3 C05",
         "Every panic edge of the library and of generated dispatchers (MIR asserts, #[track_caller] and tabled may-panic callees) is discharged by a guard rule; parser progress and suffix discipline; bounded writers. The meaning of the parser combinators (satisfy, take_while, optional, tag) that the skeleton rules build on is read from their own bodies on every run (contract rule PR). Arithmetic, slicing and split sites outside the shape rules are discharged by Fourier-Motzkin entailment from slice-length facts, with inferred counting-loop invariants (rule LF).",
         "Panics inside core/heapless beyond documented preconditions and user code are out of scope.",
         "MIR panic-edge universe + guard discharge + progress rules"),
 "C06": ("other", "§3 C06",
         "Path-summary rules on Interface::run: one handle_error per faulty path with the verbatim error, faulty bytes skipped, state inventory across back-edges. The conversion and argument-vector rules of C03 (no wrapping/truncating conversion, no dropped push) are evaluated here as well. Undefined headers are faults: trie language and dispatcher arms of the witness interfaces (C06-T/D). Only string and block recognisers can consume the terminator byte, so a complete message is never answered Incomplete (C06-N).",
         "Decides structural conditions per path; the history-level equality follows by the argument in DESIGN.md.",
         "path-summary rules over HIR"),
 "C07": ("other", "§3 C07",
         "Buffer discipline K1-K6 of process by linear normal forms of the offset updates on every path; compaction before overflow reset; await-in-place. Nothing but the transport's read and the compaction writes the command buffer (K8). The shipped writers - process answers through one - append exactly what they are given and never remove anything (C07-C04W).",
         "Decides the buffer discipline, not equality of behaviour across chunkings as such.",
         "path summaries + linear normal forms"),
 "C08": ("other", "§3 C08",
         "Byte-class denotation of string payload classes (all bytes but the delimiter), block taken by length only, Incomplete never masked on the way from a newline-transparent parser to run. The meaning of the parser combinators (satisfy, take_while, optional, tag) that the skeleton rules build on is read from their own bodies on every run (contract rule PR). Resumption of a message by process: run's Incomplete answer on every parse-error path; loss of the header path across a resumption is the recorded finding F9 (C08-R). Any further unit-to-unit local of run would be lost at a resumption too (run:resume-keeps-state). A string or block recogniser rejects only where a sub-parser or conversion failed, never by a test of its own on the payload (C08-G).",
         "Trusted: bytecls evaluator, pathsum.",
         "byte-class denotation + error-kind flow over HIR"),
 "C09": ("proof", "§3 C09",
         "The queue implementation is matched against the abstract bounded FIFO with replace-newest overflow: callee sets and store discipline of push/pop/count, blanket handler pushes once, NEXT?/COUNt? handlers, error number/text table against SCPI-1999. On the witness interfaces every spelling of the error queries reaches exactly the queue-reading functions through trie and dispatcher (C09-D). The buffer discipline of process - one response buffer per message - is evaluated here as well (C09-K). The run-time child lookup is an order-independent equality scan (C09-C01M).",
         "heapless::Deque is trusted to be a bounded deque.",
         "HIR/MIR callee-set and who-may-call rules + table comparison"),
 "C10": ("proof", "§3 C10",
         "All clauses are structural and are decided for every stream and fault position on the single generic body of process: transport calls `.await?` unchanged, only error exits, response typestate (write+flush+clear before read). execute's output discipline (rule C04-X: terminator only after a successful query) is evaluated here as well. The slot rule of C01 (nothing executed, nothing written for a header in the wrong form) as C10-C01X; the buffer discipline as C10-K. Command forms declared by the library are bound to handlers without a response value (C10-B). The shipped writers never take anything away from the response buffer, also when a write fails (C10-C04W).",
         "Trusted: rustc HIR/typeck, factdump, pathsum.",
         "path-summary typestate over type-checked HIR"),
 "C11": ("other", "§3 C11",
         "White-space class denotes exactly {0..9,11..32}; classes of headers and numbers closed under ASCII case; optional white space exactly where the grammar allows (parser skeleton); case-insensitive child lookup. The meaning of the parser combinators (satisfy, take_while, optional, tag) that the skeleton rules build on is read from their own bodies on every run (contract rule PR). run examines its input through parse only (C11-R); character data reaches handlers through case-ignoring conversions only (C11-C03V).",
         "Decides the grammar facts from which equality of behaviour of variants follows.",
         "byte-class denotation + parser skeleton rules"),
 "C12": ("other", "§3 C12",
         "Incomplete constructed only under end-of-input conditions, never masked after commitment; take_while sites cannot succeed because input ended (class excludes newline or mandatory tag follows); >=1 byte consumed. The meaning of the parser combinators (satisfy, take_while, optional, tag) that the skeleton rules build on is read from their own bodies on every run (contract rule PR). Parsers are applied to suffixes of the input only, never to a window (C12-W).",
         "Derives the for-all-continuations statement from structural facts.",
         "who-may-construct + byte-class + skeleton rules"),
 "C13": ("proof", "§3 C13",
         "Obligations over the crate graph of the default-feature build: no_std in force, neither alloc nor std loaded, no extern crate alloc/std; under feature std allocation confined to std-only items. The identifiers emitted by the macro's quote! fragments name no alloc/std item (C13-Q); a #![no_std] crate with the witness interfaces builds without alloc/std (C13-W).",
         "Trusted: rustc crate loading; heapless without allocating features.",
         "crate-graph and MIR call-graph obligations from compiler facts"),
 "C14": ("other", "§3 C14",
         "Compile-fail witnesses (colliding pairs must fail inside the macro with the matching kind, collision-free twins must build) and structural rules on Tree::insert_at / insert / interface. No declaration shadowed through colliding dispatcher keys: rules C01-T/D on the witness interfaces (C14-T/D). The run-time lookup uses the relation the collision test uses (C14-C01M).",
         "Collisions outside the generated families are covered by the structural rules only.",
         "compile-fail witnesses + HIR rules on the macro crate"),
}

NA_REASON = "check not armed yet in this revision (under construction); no claim is made"


def main():
    checks = []
    na = []
    for pid, (cat, ref, text, note, tech) in sorted(META.items()):
        if os.path.exists(os.path.join(V, "rules", "props", pid.lower() + ".py")):
            checks.append({
                "property_id": pid,
                "quick_cmd": "./check %s quick" % pid,
                "thorough_cmd": "./check %s thorough" % pid,
                "evidence_file": "evidence/%s.json" % pid,
                "replay_cmd_template": "./check %s quick --replay {path}" % pid,
                "engine": "factdump+rules",
                "level_claimed": {"category": cat, "text": text, "design_ref": ref},
                "level_note": note,
                "technique": "static analysis: " + tech,
            })
        else:
            na.append({"property_id": pid, "reason": NA_REASON})
    m = {
        "version": 1,
        "setup_cmd": "cd engine/factdump && CARGO_NET_OFFLINE=true cargo +nightly build --offline",
        "hooks": {
            "guard": "microscpi_verif (unused: no hooks or instrumentation are needed by static analysis)",
            "enable": "none - checks analyse /repo's working tree as is (cargo +nightly check under the factdump rustc wrapper)",
            "baseline_off_cmd": "cd /repo && cargo test --workspace --no-fail-fast --offline",
            "source_commits": [],
            "add_only": True,
        },
        "engines": [
            {"name": "factdump", "path": "engine/factdump", "serves_properties": sorted(META),
             "kind_free_text": "rustc_private driver dumping re-sugared type-checked HIR and mir_built as JSON facts"},
            {"name": "rules", "path": "rules", "serves_properties": sorted(META),
             "kind_free_text": "Python rule engine: path summaries, byte-class denotations, parser skeleton, panic-edge discharge, linear forms"},
        ],
        "checks": checks,
        "not_applicable": na,
        "notes": "Static analysis only. See DESIGN.md.",
    }
    fixes = os.path.join(V, "fix_commits.txt")
    if os.path.exists(fixes):
        m["hooks"]["source_commits"] = [l.split()[0] for l in open(fixes) if l.strip()]
    with open(os.path.join(V, "MANIFEST.json"), "w") as f:
        json.dump(m, f, indent=1)
    print("claimed:", [c["property_id"] for c in checks], "n/a:", [n["property_id"] for n in na])


if __name__ == "__main__":
    main()
