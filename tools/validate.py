import json, sys, glob, jsonschema
sch = json.load(open('/root/.vp/EVIDENCE.schema.json'))
for p in sorted(glob.glob('/verif/evidence/C*.json')):
    try:
        jsonschema.validate(json.load(open(p)), sch); print(p, 'valid')
    except Exception as e:
        print(p, 'INVALID', str(e)[:300])
if len(sys.argv) > 1:
    jsonschema.validate(json.load(open('/verif/MANIFEST.json')), json.load(open('/root/.vp/MANIFEST.schema.json'))); print('manifest valid')
