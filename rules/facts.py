"""Fact extraction (runs the factdump driver under cargo) with a content-addressed cache."""
import fcntl
import hashlib
import json
import os
import shutil
import subprocess
import sys
import tempfile
import time

VERIF = os.path.dirname(os.path.dirname(os.path.abspath(__file__)))
REPO = os.environ.get("VERIF_REPO", "/repo")
DRIVER_DIR = os.path.join(VERIF, "engine", "factdump")
DRIVER = os.path.join(DRIVER_DIR, "target", "debug", "factdump")
CACHE = os.path.join(VERIF, ".cache")
WITNESS = os.path.join(VERIF, "witness")


def _sysroot():
    return subprocess.check_output(["rustc", "+nightly", "--print", "sysroot"], text=True).strip()


def _hash_tree(h, root, skip_dirs=("target", ".git")):
    for dp, dns, fns in os.walk(root):
        dns[:] = sorted(d for d in dns if d not in skip_dirs)
        for fn in sorted(fns):
            p = os.path.join(dp, fn)
            if os.path.islink(p) or not os.path.isfile(p):
                continue
            h.update(os.path.relpath(p, root).encode())
            h.update(b"\0")
            with open(p, "rb") as f:
                h.update(f.read())
            h.update(b"\0")


_KEY = None


def tree_key():
    global _KEY
    if _KEY is None:
        h = hashlib.sha256()
        h.update(os.path.abspath(REPO).encode())   # harness workspaces path-depend on REPO: never share across locations
        _hash_tree(h, REPO)
        if os.path.exists(DRIVER):
            with open(DRIVER, "rb") as f:
                h.update(f.read())
        if os.path.isdir(WITNESS):
            _hash_tree(h, WITNESS, skip_dirs=("target", ".git", "__pycache__"))
        _KEY = h.hexdigest()[:24]
    return _KEY


def ensure_driver():
    if os.path.exists(DRIVER):
        return
    build_driver()


def build_driver():
    env = dict(os.environ, CARGO_NET_OFFLINE="true")
    subprocess.check_call(["cargo", "+nightly", "build", "--offline"], cwd=DRIVER_DIR, env=env)


def _workspace_target_crates():
    """Crate names of the workspace's own targets (library, integration tests, benches, fuzz targets)."""
    names = ["microscpi"]
    for sub in ("microscpi/tests", "microscpi/benches", "microscpi/fuzz/fuzz_targets"):
        d = os.path.join(REPO, sub)
        if os.path.isdir(d):
            names += [f[:-3] for f in sorted(os.listdir(d)) if f.endswith(".rs")]
    return ",".join(names)


# cfg name -> (cwd, cargo args, crates to dump, wrapper kind)
def _configs():
    return {
        "lib": (REPO, ["-p", "microscpi", "--lib"], "microscpi,microscpi_macros"),
        "std": (REPO, ["-p", "microscpi", "--lib", "--features", "std"], "microscpi"),
        "dfm": (REPO, ["-p", "microscpi", "--lib", "--features", "defmt"], "microscpi"),
        "tgt": (REPO, ["--workspace", "--all-targets"], _workspace_target_crates()),
    }


def _run_cargo(cwd, args, crates, outdir, extra_env=None):
    target = tempfile.mkdtemp(prefix="verif-target-")
    try:
        env = dict(os.environ)
        env.update(
            CARGO_NET_OFFLINE="true",
            VERIF_CRATES=crates,
            VERIF_FACTS_DIR=outdir,
            RUSTFLAGS="-Zmir-opt-level=0 -Awarnings",
            RUSTC_WRAPPER=DRIVER,
            CARGO_TARGET_DIR=target,
            LD_LIBRARY_PATH=os.path.join(_sysroot(), "lib") + ":" + os.environ.get("LD_LIBRARY_PATH", ""),
        )
        env.pop("RUSTC_WORKSPACE_WRAPPER", None)
        if extra_env:
            env.update(extra_env)
        p = subprocess.run(
            ["cargo", "+nightly", "check", "--offline"] + args,
            cwd=cwd, env=env, stdout=subprocess.PIPE, stderr=subprocess.STDOUT, text=True,
        )
        return p.returncode, p.stdout
    finally:
        shutil.rmtree(target, ignore_errors=True)


class ExtractionError(Exception):
    pass


def get(cfg, custom=None):
    """Return {crate_file_stem: facts} for a configuration, extracting if not cached.

    custom = (cwd, cargo args, crates, key_extra) for configurations outside the table
    (the witness workspace)."""
    ensure_driver()
    key = tree_key()
    if custom:
        cwd, args, crates, extra = custom
        key = hashlib.sha256((key + extra).encode()).hexdigest()[:24]
    else:
        cwd, args, crates = _configs()[cfg]
    d = os.path.join(CACHE, "facts", key, cfg)
    last = None
    for attempt in range(3):
        try:
            return _get_locked(cfg, key, d, cwd, args, crates)
        except FileNotFoundError as e:      # an entry vanished under us (pruned by a check of another tree): extract again
            last = e
            time.sleep(0.2 * (attempt + 1))
    raise last


def _get_locked(cfg, key, d, cwd, args, crates):
    os.makedirs(os.path.dirname(d), exist_ok=True)
    # one lock per (tree state, configuration): checks of different trees do not wait for each other, and everything
    # that reads or replaces the entry happens under the lock
    lock = open(os.path.join(CACHE, "facts", ".lock-%s-%s" % (key, cfg)), "w")
    fcntl.flock(lock, fcntl.LOCK_EX)
    try:
        if not os.path.exists(os.path.join(d, ".done")):
            tmp = d + ".part"
            shutil.rmtree(tmp, ignore_errors=True)
            os.makedirs(tmp)
            t0 = time.time()
            rc, out = _run_cargo(cwd, args, crates, tmp)
            with open(os.path.join(tmp, "cargo.log"), "w") as f:
                f.write(out)
            with open(os.path.join(tmp, "rc"), "w") as f:
                f.write(str(rc))
            with open(os.path.join(tmp, "wall"), "w") as f:
                f.write("%.2f" % (time.time() - t0))
            if rc == 0:
                # only successful extractions are cached: a failed build is re-tried by the next check, so that a
                # transient failure can never turn into a persistent alarm
                open(os.path.join(tmp, ".done"), "w").close()
            shutil.rmtree(d, ignore_errors=True)
            os.rename(tmp, d)
            _prune(keep=key)
        # mark the tree state as in use (pruning goes by this time stamp)
        try:
            os.utime(os.path.dirname(d), None)
        except OSError:
            pass
        rc = int(open(os.path.join(d, "rc")).read())
        log = open(os.path.join(d, "cargo.log")).read()
        facts = {}
        for fn in sorted(os.listdir(d)):
            if fn.endswith(".json"):
                with open(os.path.join(d, fn)) as f:
                    facts[fn[:-5]] = json.load(f)
        return {"rc": rc, "log": log, "facts": facts, "dir": d,
                "wall": float(open(os.path.join(d, "wall")).read())}
    finally:
        fcntl.flock(lock, fcntl.LOCK_UN)
        lock.close()


def _prune(keep):
    """Keep the cache small: drop fact sets of tree states that no check has used for an hour (beyond the 30 most
    recently used), and the lock files that belong to them."""
    root = os.path.join(CACHE, "facts")
    try:
        ents = [e for e in os.listdir(root) if not e.startswith(".") and os.path.isdir(os.path.join(root, e))]
    except OSError:
        return

    def mt(e):
        try:
            return os.path.getmtime(os.path.join(root, e))
        except OSError:
            return 0
    ents.sort(key=mt, reverse=True)
    now = time.time()
    for e in ents[30:]:
        if e != keep and now - mt(e) > 1500:
            shutil.rmtree(os.path.join(root, e), ignore_errors=True)
    live = set(ents[:30]) | {keep}
    try:
        for fn in os.listdir(root):
            if fn.startswith(".lock-") and fn.count("-") >= 2:
                k = fn.split("-")[1]
                p = os.path.join(root, fn)
                if k not in live and not os.path.isdir(os.path.join(root, k)) and now - os.path.getmtime(p) > 1500:
                    os.unlink(p)
    except OSError:
        pass


if __name__ == "__main__":
    r = get(sys.argv[1])
    print(r["rc"], list(r["facts"]), r["wall"])
    if r["rc"] != 0:
        print(r["log"][-3000:])
