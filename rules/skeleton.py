"""skeleton: parser remainder flow over the path summaries of parser.rs.

For every function of microscpi::parser that is a parser (returns ParseResult) or a parser
factory (returns impl Fn(&[u8]) -> ParseResult) it derives, bottom-up from the three
primitives take_while / satisfy / optional and from slicing:
  * parser applications on each path (identity, input term, outcome),
  * the suffix chain of every Ok remainder back to the function's input,
  * strictness (every Ok consumes >= 1 byte), newline transparency (can consume byte 10
    through a take_while class or a data-driven slice), the error kinds it may return,
  * where an error kind of a sub-parser is dropped without being inspected.
"""
import bytecls
import ctx
import hir
import pathsum
from pathsum import ERR, NONE, OK, SOME, St, show_term

P = "microscpi::parser::"
PE = "microscpi::parser::ParseError::"
ERRT = "microscpi::error::Error"
PET = "microscpi::parser::ParseError"
ALL_KINDS = frozenset(["soft", "fatal", "incomplete"])


def pid_name(pid):
    if pid is None:
        return "?"
    k = pid[0]
    if k == "fn":
        return pid[1].split("::")[-1]
    if k in ("satisfy", "take_while"):
        return "%s(%s)" % (k, bytecls.show_set(pid[1]))
    if k == "tag":
        return "tag(%r)" % (chr(pid[1]) if pid[1] is not None else "?")
    if k == "optional":
        return "optional(%s)" % pid_name(pid[1])
    if k == "factory":
        return pid[1].split("::")[-1] + "(..)"
    if k == "param":
        return "<param %s>" % pid[1]
    return str(pid)


class Skeleton:
    def __init__(self, ck, lib):
        self.ck = ck
        self.lib = lib
        self.fns = {}
        self.memo = {}
        self.problems = []
        for b in lib.facts["bodies"]:
            if not b["def"].startswith(P) or b["kind"] != "Fn" or "::{" in b["def"]:
                continue
            if hir.base_path(b["def"]) in ctx.inline_helpers(lib):
                continue      # evaluated in place at its call sites, not a node of the skeleton
            ret = b.get("ret", "")
            kind = None
            if b["def"] in ctx.curried_roles(lib):
                kind = "factory"        # uncurried form of a parser factory: presented in curried form by pathsum
            elif ret.startswith("core::result::Result<(&"):
                kind = "direct"
            elif ret.startswith("impl ") and ("Fn(" in ret or "FnMut(" in ret or "FnOnce(" in ret) and "Result<(&" in ret:
                kind = "factory"
            if kind is None:
                continue
            exits, ps = ctx.summarize(lib, b["def"], ck, closure=(kind == "factory"))
            if exits is None:
                self.problems.append("cannot summarise " + b["def"])
                continue
            if kind == "factory":
                cl = ctx.returned_closure(hir.async_full(b["value"]))
                inp_pat = cl["params"][0] if cl is not None else b["params"][-1]
            else:
                inp_pat = b["params"][-1]
            inp = ("param", inp_pat.get("name")) if inp_pat.get("k") == "Bind" else None
            self.fns[b["def"]] = {"kind": kind, "exits": exits, "ps": ps, "inp": inp, "params": [p.get("name") for p in b["params"]], "body": b}

    # ------------------------------------------------------------------ identities
    def cls_of(self, pred_term, ps):
        if pred_term[0] == "closure":
            node = ps.closures.get(pred_term[1])
            cap = {}
            if len(pred_term) > 2:
                cap = {i: v[2] for (i, v) in pred_term[2] if v[0] == "lit" and isinstance(v[2], (int, bool))}
            return bytecls.denote_closure(node, self.lib, cap) if node is not None else None
        if pred_term[0] == "fn":
            return bytecls.denote_fn(self.lib, pred_term[1])
        return None

    def fident(self, f, ps):
        """Identity of a parser-valued term."""
        if f[0] == "fn" and f[1] in self.fns and self.fns[f[1]]["kind"] == "direct":
            return ("fn", f[1])
        if f[0] == "call":
            name = f[1]
            if name == P + "satisfy":
                return ("satisfy", self.cls_of(f[2][0], ps))
            if name == P + "take_while":
                return ("take_while", self.cls_of(f[2][0], ps))
            if name == P + "tag":
                a = f[2][0]
                return ("tag", a[2] if a[0] == "lit" else None)
            if name == P + "optional":
                return ("optional", self.fident(f[2][0], ps))
            if name in self.fns and self.fns[name]["kind"] == "factory":
                return ("factory", name)
        if f[0] in ("param", "local"):
            return ("param", f[1] if f[0] == "param" else f[2])
        return None

    def app(self, t, ps):
        """t: term of a parser application -> (pid, input term) or None"""
        if not isinstance(t, tuple) or not t:
            return None
        if t[0] == "call" and t[1] in self.fns and self.fns[t[1]]["kind"] == "direct" and len(t[2]) >= 1:
            return ("fn", t[1]), t[2][-1]
        if t[0] == "apply" and len(t[2]) == 1:
            pid = self.fident(t[1], ps)
            if pid is not None:
                return pid, t[2][0]
        return None

    def apps_on_path(self, x, ps):
        """Ordered parser applications on a path: list of (pid, input, term, outcome True/False/None)"""
        out = []
        st = St(x.conds)
        for e in x.effects:
            if e[0] in ("call", "apply"):
                t = (e[0],) + tuple(e[1:])
                a = self.app(t, ps)
                if a is not None:
                    out.append((a[0], a[1], t, ps.decided(st, t, OK)))
        return out

    # ------------------------------------------------------------------ attributes (memoised, bottom-up)
    def attr(self, pid):
        if pid in self.memo:
            return self.memo[pid]
        self.memo[pid] = {"kinds": ALL_KINDS, "strict": False, "nt": True, "pending": True}   # cycle guard (pessimistic)
        k = pid[0] if pid else None
        if k == "satisfy":
            r = {"kinds": frozenset(["soft", "incomplete"]), "strict": True, "nt": False}
        elif k == "tag":
            r = {"kinds": frozenset(["soft", "incomplete"]), "strict": True, "nt": False}
        elif k == "take_while":
            r = {"kinds": frozenset(), "strict": False, "nt": pid[1] is None or 10 in pid[1]}
        elif k == "optional":
            inner = self.attr(pid[1]) if pid[1] else {"nt": True}
            r = {"kinds": frozenset(), "strict": False, "nt": inner["nt"]}
        elif k in ("fn", "factory"):
            r = self.fn_attr(pid[1])
        else:
            r = {"kinds": ALL_KINDS, "strict": False, "nt": True, "unknown": True}
        self.memo[pid] = r
        return r

    def fn_attr(self, path):
        f = self.fns.get(path)
        if f is None:
            return {"kinds": ALL_KINDS, "strict": False, "nt": True, "unknown": True}
        ps = f["ps"]
        kinds = set()
        strict = True
        nt = False
        n_ok = 0
        for x in f["exits"]:
            # newline transparency through sub-parsers / data-driven slices
            for (pid, inp, t, oc) in self.apps_on_path(x, ps):
                if self.attr(pid).get("nt"):
                    nt = True
            for e in x.effects:
                if e[0] == "index" and self.data_driven(e[2]):
                    nt = True
                if e[0] == "call" and e[1].endswith("::split_at") and len(e[2]) == 2 and self.data_driven(("struct", "RangeTo", (("end", e[2][1]),))):
                    nt = True
                if e[0] == "call" and pathsum.is_slice_get(("call",) + tuple(e[1:])) and self.data_driven(e[2][1]):
                    nt = True
            v = self.exit_result(x)
            if v is None:
                continue
            for (okness, payload) in v:
                if okness == "ok":
                    n_ok += 1
                    ch = self.chain(self.rem_of(payload), f["inp"], x, ps)
                    if ch is None or not any(c[0] == "strict" for c in ch):
                        strict = False
                elif okness == "err":
                    kinds |= self.err_kinds(payload, x, ps)
        if n_ok == 0:
            strict = False
        return {"kinds": frozenset(kinds), "strict": strict, "nt": nt}

    def own_nt(self, path):
        """why parser function `path` can run across a newline by its *own* body - a take_while whose class contains the
        newline (or is unknown), a slice whose bound is a data value - as opposed to through another parser function"""
        f = self.fns.get(path)
        out = []
        if f is None:
            return out
        ps = f["ps"]
        for x in f["exits"]:
            for (pid, inp, t, oc) in self.apps_on_path(x, ps):
                q = pid
                while q and q[0] == "optional" and q[1]:
                    q = q[1]
                if q and q[0] not in ("fn", "factory") and self.attr(pid).get("nt"):
                    out.append("take_while over a class that contains the newline" if q[0] == "take_while" else "a recogniser of unknown class")
            for e in x.effects:
                if e[0] == "index" and self.data_driven(e[2]):
                    out.append("slice by a data value")
                if e[0] == "call" and e[1].endswith("::split_at") and len(e[2]) == 2 and self.data_driven(("struct", "RangeTo", (("end", e[2][1]),))):
                    out.append("split_at a data value")
                if e[0] == "call" and pathsum.is_slice_get(("call",) + tuple(e[1:])) and self.data_driven(e[2][1]):
                    out.append("get(range) by a data value")
        return sorted(set(out))

    def data_driven(self, rng):
        """A slice bound that is a data value (not a length/position of parsed input)."""
        if rng[0] != "struct":
            return False
        for (n, v) in rng[2]:
            s = repr(v)
            if v[0] == "lit":
                continue
            if "::len'" in s or "::position'" in s or "len" in [x[1].split("::")[-1] for x in pathsum.subterms(v) if isinstance(x, tuple) and x and x[0] == "call"]:
                continue
            if any(isinstance(x, tuple) and x and x[0] == "call" and x[1].endswith("::position") for x in pathsum.subterms(v)):
                continue
            return True
        return False

    # ------------------------------------------------------------------ exits
    def exit_result(self, x):
        """-> list of ('ok'|'err', payload term) alternatives for the exit value, or None"""
        v = x.value
        if x.kind not in ("return", "err") or v is None:
            return None
        if v[0] == "ctor" and v[1] == OK:
            return [("ok", v[2][0])]
        if v[0] == "ctor" and v[1] == ERR:
            return [("err", v[2][0])]
        # a whole sub-result returned as is
        d = None
        for c in x.conds:
            if c[0] == "is" and c[1] == v and c[2] == OK:
                d = c[3]
        out = []
        if d is not False:
            out.append(("ok", ("payload", v, OK, 0)))
        if d is not True:
            out.append(("err", ("payload", v, ERR, 0)))
        return out

    def rem_of(self, payload):
        if payload[0] == "tuple":
            return payload[1][0]
        return ("tproj", payload, 0)

    def val_of(self, payload):
        if payload[0] == "tuple":
            return payload[1][1]
        return ("tproj", payload, 1)

    def chain(self, rem, inp, x, ps, depth=0):
        """Suffix chain from `rem` back to `inp`: list of step tags ('strict' | 'weak' | 'slice' | 'empty' | 'loopvar:<id>'),
        or None when rem is not recognisably a suffix of inp."""
        if depth > 60:
            return None
        if rem == inp:
            return []
        if rem[0] == "array" and not rem[1]:
            return [("empty", None)]
        if rem[0] == "loopvar":
            info = ps.loops.get(rem[3])
            if not info or not info["entry"]:
                return None
            tags = None
            for st in info["entry"]:
                v = st.env.get(rem[1])
                ch = self.chain(v, inp, x, ps, depth + 1) if v is not None else None
                if ch is None:
                    return None
                s_ = any(c[0] == "strict" for c in ch)
                tags = s_ if tags is None else (tags and s_)
            return [("loop", rem[3])] + ([("strict", ("loop-entry",))] if tags else [])
        if rem[0] == "tproj" and rem[2] == 0 and rem[1][0] == "payload" and rem[1][2] == OK:
            t = rem[1][1]
            a = self.app(t, ps)
            if a is None:
                return None
            pid, src = a
            if pid[0] == "param":
                tag = "weak"
            elif pid[0] == "optional" and pid[1] is not None and pid[1][0] != "param":
                # optional(p) consumed what p consumed when its value is Some on this path
                some = ps.decided(St(x.conds), ("tproj", rem[1], 1), SOME)
                tag = "strict" if (some and self.attr(pid[1])["strict"]) else "weak"
            else:
                tag = "strict" if self.attr(pid)["strict"] else "weak"
            rest = self.chain(src, inp, x, ps, depth + 1)
            return None if rest is None else rest + [(tag, pid, t)]
        if rem[0] == "tproj" and rem[2] == 1 and rem[1][0] == "payload" and rem[1][2] == SOME and rem[1][1][0] == "call" and rem[1][1][1].endswith("::split_first") and len(rem[1][1][2]) == 1:
            # x.split_first()?.1 is x without its first byte
            rest = self.chain(rem[1][1][2][0], inp, x, ps, depth + 1)
            return None if rest is None else rest + [("strict", ("slice", "split_first"))]
        if rem[0] == "tproj" and rem[2] == 1 and rem[1][0] == "call" and rem[1][1].endswith("::split_at") and len(rem[1][2]) == 2:
            # x.split_at(k).1 is the tail of x
            k = rem[1][2][1]
            same = self._same_suffix(rem[1][2][0], k, inp, x, ps, depth)
            if same is not None:
                return same
            tag = "slice"
            if (k[0] == "lit" and isinstance(k[2], int) and k[2] >= 1) or (k[0] == "bin" and k[1] == "Add" and ("lit", "int", 1) in (k[2], k[3])):
                tag = "strict"
            rest = self.chain(rem[1][2][0], inp, x, ps, depth + 1)
            return None if rest is None else rest + [(tag, ("slice", "split_at " + show_term(k)))]
        if rem[0] == "index":
            r = rem[2]
            if r[0] == "struct" and r[1].endswith("RangeFrom"):
                start = dict(r[2]).get("start")
                same = self._same_suffix(rem[1], start, inp, x, ps, depth) if start is not None else None
                if same is not None:
                    return same
                tag = "slice"
                if start and start[0] == "lit" and isinstance(start[2], int) and start[2] >= 1:
                    # i[k..] taken under a non-emptiness fact is strict; the discharge of the bound is C05-U's business
                    tag = "strict"
                if start and start[0] == "bin" and start[1] == "Add" and ("lit", "int", 1) in (start[2], start[3]):
                    tag = "strict"
                rest = self.chain(rem[1], inp, x, ps, depth + 1)
                return None if rest is None else rest + [(tag, ("slice", show_term(start) if start else "?"))]
            if r[0] == "struct" and r[1].endswith("RangeFull"):
                return self.chain(rem[1], inp, x, ps, depth + 1)
            return None
        return None

    def _same_suffix(self, base, k, inp, x, ps, depth):
        """base[k..] where k is computed from lengths: if some parser remainder R on this path is a suffix of `base` of
        the same length (len(base) - k = len(R), entailed by the slice-length facts), base[k..] *is* R - two suffixes of
        one slice with equal length are the same slice - and the chain continues through R."""
        if k[0] == "lit" or depth > 40 or not any(isinstance(u, tuple) and u and u[0] == "call" and u[1].endswith("::len") for u in pathsum.subterms(k)):
            return None
        import fm
        import slicelin
        sl = slicelin.SliceLin(self, ps, inp)
        facts = None
        for (pid, src, t, oc) in self.apps_on_path(x, ps):
            if oc is not True:
                continue
            R = ("tproj", ("payload", t, OK, 0), 0)
            if pathsum.strip_sites(R) == pathsum.strip_sites(base):
                continue
            try:
                via = self.chain(R, base, x, ps, depth + 1)
            except RecursionError:
                via = None
            if via is None:
                continue
            if facts is None:
                facts = sl.premises(x) + sl.cond_facts(x)
            f2 = facts + sl.slice_facts(pathsum.strip_sites(R), x) + [fm.ge0(sl.ln(R))]
            if all(fm.entails(f2, g) for g in fm.eq(sl.ln(base) - sl.L(k), sl.ln(R))):
                return self.chain(R, inp, x, ps, depth + 1)
        return None

    def err_kinds(self, e, x, ps):
        """Error kinds an Err payload term may have on this path."""
        if e[0] == "ctor":
            if e[1] == PE + "Incomplete":
                return {"incomplete"}
            if e[1] == PE + "SoftError":
                return {"soft"}
            if e[1] == PE + "FatalError":
                return {"fatal"}
        if e[0] == "from" or (e[0] == "call" and e[1].split("::")[-1] in ("into", "from") and len(e[2]) == 1):
            # the conversion is read from the library's own From impl (its path summaries), not assumed
            vals = ctx.canon_conv(self.lib, e, PET)
            if vals is None or any(v[0] != "ctor" or not v[1].startswith(PE) for v in vals):
                return set(ALL_KINDS)
            ks = set()
            for v in vals:
                ks |= self.err_kinds(v, x, ps)
            return ks
        if e[0] == "payload" and e[2] == ERR:
            a = self.app(e[1], ps)
            if a is not None:
                ks = set(self.attr(a[0])["kinds"]) if a[0][0] != "param" else set(ALL_KINDS)
                # refine by kind tests on the path
                for c in x.conds:
                    if c[0] == "is" and c[1] == e:
                        kn = {PE + "Incomplete": "incomplete", PE + "SoftError": "soft", PE + "FatalError": "fatal"}.get(c[2])
                        if kn:
                            if c[3]:
                                ks &= {kn}
                            else:
                                ks -= {kn}
                return ks
        return set(ALL_KINDS)

    # ------------------------------------------------------------------ consumed language
    def language(self, pid, depth=0):
        """The set of token sequences a parser consumes on success - tokens ("one", class) for a one-byte recogniser and
        ("many", class) for a take_while - read off the remainder chains of its accepting paths, sub-parsers expanded
        down to the combinators. None when an accepting path contains a loop, a data-driven slice or a parser without a
        body. Sequences that maximal munch excludes (a take_while followed by a byte of its own class) are dropped."""
        key = ("lang", pid)
        if key in self.memo:
            return self.memo[key]
        self.memo[key] = None     # recursion guard
        k = pid[0] if pid else None
        res = None
        if k == "satisfy":
            res = {(("one", frozenset(pid[1])),)} if pid[1] is not None else None
        elif k == "tag":
            res = {(("one", frozenset([pid[1]])),)} if pid[1] is not None else None
        elif k == "take_while":
            res = {(("many", frozenset(pid[1])),)} if pid[1] is not None else None
        elif k == "optional":
            inner = self.language(pid[1], depth + 1) if pid[1] else None
            res = None if inner is None else set(inner) | {()}
        elif k in ("fn", "factory") and depth < 12:
            f = self.fns.get(pid[1])
            if f is not None:
                res = set()
                for x in f["exits"]:
                    r = self.exit_result(x)
                    if not (r and r[0][0] == "ok"):
                        continue
                    ch = self.chain(self.rem_of(r[0][1]), f["inp"], x, f["ps"])
                    if ch is None:
                        res = None
                        break
                    seqs = {()}
                    for c in ch:
                        if len(c) < 3 or c[0] in ("loop", "slice", "empty") or not c[1] or c[1][0] in ("slice", "param"):
                            seqs = None
                            break
                        sub = c[1]
                        if sub[0] == "optional":
                            some = f["ps"].decided(St(x.conds), ("tproj", ("payload", c[2], OK, 0), 1), SOME)
                            inner = self.language(sub[1], depth + 1) if sub[1] else None
                            lang = None if inner is None else (set(inner) if some is True else {()} if some is False else set(inner) | {()})
                        else:
                            lang = self.language(sub, depth + 1)
                        if lang is None:
                            seqs = None
                            break
                        seqs = {a + b for a in seqs for b in lang}
                        if len(seqs) > 4000:
                            seqs = None
                            break
                    if seqs is None:
                        res = None
                        break
                    res |= seqs
        if res is not None:
            res = {q for q in res if not any(q[i][0] == "many" and q[i + 1][1] <= q[i][1] for i in range(len(q) - 1))}
        self.memo[key] = res
        return res

    # ------------------------------------------------------------------ dropped error kinds
    def dropped(self):
        """Sites where the error of a failed sub-parser application is neither propagated nor
        inspected for its kind. -> list of dicts(fn, pid, site, kinds, path)"""
        out = []
        for path, f in sorted(self.fns.items()):
            ps = f["ps"]
            for x in f["exits"]:
                for (pid, inp, t, oc) in self.apps_on_path(x, ps):
                    if oc is not False:
                        continue
                    ep = ("payload", t, ERR, 0)
                    res = self.exit_result(x) or []
                    propagated = any(okn == "err" and (pl == ep or (pl[0] == "from" and pl[1] == ep)) for okn, pl in res)
                    # re-raised by kind: `Err(Incomplete)` on the path where the error is known to be Incomplete (etc.)
                    for c in x.conds:
                        if c[0] == "is" and c[1] == ep and c[3] and any(okn == "err" and pl == ("ctor", c[2], ()) for okn, pl in res):
                            propagated = True
                    if x.kind == "backedge" or x.kind == "panic":
                        propagated = False
                    excluded = set()
                    for c in x.conds:
                        if c[0] == "is" and c[1] == ep:
                            kn = {PE + "Incomplete": "incomplete", PE + "SoftError": "soft", PE + "FatalError": "fatal"}.get(c[2])
                            if kn and c[3]:
                                excluded |= (ALL_KINDS - {kn})
                            elif kn:
                                excluded.add(kn)
                    if propagated:
                        continue
                    ks = set(self.attr(pid)["kinds"]) if pid[0] != "param" else set(ALL_KINDS)
                    lost = ks - excluded
                    out.append({"fn": path, "pid": pid, "site": t[3], "lost": lost, "exit": x, "term": t, "inp": inp})
        return out


    # ------------------------------------------------------------------ direct inspection of the input
    INSPECTORS = ("first", "last", "get", "iter", "starts_with", "ends_with", "contains", "is_empty", "split_first", "split_last",
                  "split", "splitn", "position", "find", "chunks", "windows", "eq", "ne", "cmp", "partial_cmp", "to_vec", "binary_search")

    def direct_inspections(self, exempt=("take_while", "satisfy")):
        """Calls that look at the bytes of an input-derived *suffix* (the input itself or a remainder) outside the parser
        primitives: anything but a parser application, `len()` (span arithmetic / length guards, judged by C12-I) and
        slicing. The skeleton describes the grammar exactly only if input is consumed solely through parser
        applications; a peek - `first()`, `iter()`, `from_utf8(rest)`, `starts_with`, ... - makes it inexact and lets a
        verdict depend on bytes behind the unit."""
        out = {}
        for path, f in sorted(self.fns.items()):
            name = path.split("::")[-1]
            if name in exempt:
                continue
            for x in f["exits"]:
                for e in x.effects:
                    if e[0] == "call" and e[2]:
                        if self.app(("call",) + tuple(e[1:]), f["ps"]) is not None:
                            continue
                        nm = e[1].split("::")[-1]
                        if nm in ("len", "is_empty", "split_at", "split_at_checked") or e[1] in self.fns or pathsum.is_slice_get(("call",) + tuple(e[1:])):
                            continue   # span arithmetic, end-of-input tests (judged by C12-I) and slicing are not peeks at bytes
                        if nm == "first" and e[2][0] == f["inp"] and self.peek_first_ok(f):
                            continue   # one byte of lookahead that the chosen alternative consumes
                        for a in e[2]:
                            if self._is_input_slice(a, f, x):
                                out[(path, e[3])] = (path, e[1], e[3], show_term(a))
                    if e[0] == "index" and self._is_input_slice(e[1], f, x):
                        k = e[2]
                        if k[0] == "lit":   # input[k]: byte access
                            out[(path, e[3])] = (path, "index by constant", e[3], show_term(e[1]))
        return list(out.values())

    def peek_first_ok(self, f):
        """`input.first()` used to choose an alternative is no peek behind the unit when the byte looked at is consumed by
        whatever accepts: every Ok exit on a path where first() was Some consumes at least one byte of that same input,
        and every exit where it was None (end of input) is Err(Incomplete)."""
        ps = f["ps"]
        seen_some = seen_none = False
        for x in f["exits"]:
            some = None
            for c in x.conds:
                if c[0] == "is" and c[2] == SOME and c[1][0] == "call" and c[1][1].split("::")[-1] == "first" and c[1][2] and pathsum.strip_sites(c[1][2][0]) == pathsum.strip_sites(f["inp"]):
                    some = c[3]
            r = self.exit_result(x)
            if some is None:
                if r and any(okness == "ok" for okness, _ in r):
                    return False        # accepts without the test having been made
                continue
            for (okness, payload) in r or []:
                if some is False:
                    seen_none = True
                    if okness != "err" or self.err_kinds(payload, x, ps) != {"incomplete"}:
                        return False
                elif okness == "ok":
                    seen_some = True
                    ch = self.chain(self.rem_of(payload), f["inp"], x, ps)
                    if ch is None or not any(c_[0] == "strict" for c_ in ch):
                        return False
        return seen_some and seen_none

    def _is_input_slice(self, t, f, x):
        if t == f["inp"]:
            return True
        try:
            return self.chain(t, f["inp"], x, f["ps"]) is not None and t[0] != "array"
        except RecursionError:
            return False
