"""Witness workspace: renders the specs, compiles them through the real macro of the current tree under the
factdump wrapper, and reads back the emitted Node statics and generated dispatchers (never runs them)."""
import hashlib
import os
import shutil
import sys

import facts
import hir

sys.path.insert(0, os.path.join(facts.VERIF, "witness"))
import specs as S  # noqa: E402


def _write_ws(src):
    """The scratch workspace for one rendered witness source (keyed by tree state and source): created atomically
    (written aside, then renamed), stamped on every use, and pruned only when unused for an hour."""
    import tempfile
    import time
    h = hashlib.sha256(src.encode()).hexdigest()[:16]
    root = os.path.join(facts.CACHE, "wit")
    d = os.path.join(root, "ws-%s-%s" % (facts.tree_key(), h))
    os.makedirs(root, exist_ok=True)
    if not os.path.exists(os.path.join(d, "wit", "src", "lib.rs")):
        try:
            ents = sorted((e for e in os.listdir(root) if e.startswith("ws-")), key=lambda e: _mtime(os.path.join(root, e)))
            for e in ents[:-8]:
                # never remove a workspace another check may be building right now
                if time.time() - _mtime(os.path.join(root, e)) > 1500:
                    shutil.rmtree(os.path.join(root, e), ignore_errors=True)
        except OSError:
            pass
        tmp = tempfile.mkdtemp(prefix=".new-", dir=root)
        os.makedirs(os.path.join(tmp, "wit", "src"))
        with open(os.path.join(tmp, "wit", "Cargo.toml"), "w") as f:
            f.write('[package]\nname = "wit"\nversion = "0.0.0"\nedition = "2021"\n\n[workspace]\n\n[dependencies]\n'
                    'microscpi = { path = "%s/microscpi" }\nheapless = "0.8.0"\n' % facts.REPO)
        shutil.copy(os.path.join(facts.REPO, "Cargo.lock"), os.path.join(tmp, "wit", "Cargo.lock"))
        with open(os.path.join(tmp, "wit", "src", "lib.rs"), "w") as f:
            f.write(src)
        try:
            os.rename(tmp, d)
        except OSError:
            shutil.rmtree(tmp, ignore_errors=True)     # another check created the same workspace meanwhile
    try:
        os.utime(d, None)
    except OSError:
        pass
    return d, h


def _mtime(p):
    try:
        return os.path.getmtime(p)
    except OSError:
        return 0


def build(ck, seed, count, extra_specs=None):
    """-> (FactSet, specs that compiled, failures [(spec, message)])

    All interfaces are compiled in one crate; when the build fails the interfaces whose macro
    invocation (or generated code) is reported by rustc are removed and the rest is built again,
    so that one rejected interface is reported as such and does not hide the others."""
    import ctx
    import re
    all_specs = list(S.STATIC) + S.generate(seed, count) + list(extra_specs or [])
    failures = []
    for attempt in range(4):
        rendered = [S.render(s) for s in all_specs]
        header = "#![no_std]\n#![allow(async_fn_in_trait)]\n"
        src = header + "\n".join(rendered) + "\n"
        d, h = _write_ws(src)
        fs = ctx.factset(ck, "wit-%d-%d-%s" % (seed, count, h), custom=(os.path.join(d, "wit"), ["--lib"], "wit", "wit" + h))
        if fs.rc == 0:
            break
        # map error lines to modules
        starts = []
        line = 3
        for sp, r in zip(all_specs, rendered):
            starts.append((line, line + r.count("\n"), sp))
            line += r.count("\n") + 1
        bad = {}
        log = re.sub(r"\x1b\[[0-9;]*m", "", fs.log)
        blocks = re.split(r"\n(?=error)", log)
        for blk in blocks:
            m = re.search(r"--> src/lib\.rs:(\d+):", blk)
            if not blk.startswith("error") or not m:
                continue
            ln = int(m.group(1))
            for (a, b, sp) in starts:
                if a <= ln <= b:
                    bad.setdefault(sp["mod"], (sp, blk.strip()[:700]))
        if not bad:
            return fs, [], [(None, log[-2000:])]
        failures += list(bad.values())
        all_specs = [sp for sp in all_specs if sp["mod"] not in bad]
    return fs, all_specs, failures


class Iface:
    """The emitted artefacts of one witness interface."""

    def __init__(self, crate, spec):
        self.spec = spec
        self.mod = "wit::" + spec["mod"]
        self.crate = crate
        self.statics = {}
        for b in crate.facts["bodies"]:
            if b["kind"].startswith("Static") and b["def"].startswith(self.mod + "::"):
                self.statics[b["def"]] = b
        self.root_fn = None
        self.exec_fn = None
        for b in crate.facts["bodies"]:
            if b["def"].startswith("<" + self.mod + "::Iface") and b.get("trait") == "microscpi::interface::Interface":
                if b.get("name") == "root_node":
                    self.root_fn = b
                elif b.get("name") == "execute_command":
                    self.exec_fn = b

    def node(self, path):
        """-> (children [(name, static path)], command id|None, query id|None) or None if the shape is unexpected"""
        b = self.statics.get(path)
        if b is None:
            return None
        v = hir.strip(b["value"])
        if v.get("k") != "Struct" or not v["res"].get("path", "").endswith("tree::Node"):
            return None
        f = {x["name"]: x["e"] for x in v["fields"]}
        kids = []
        arr = hir.strip(f["children"])
        if arr.get("k") != "Array":
            return None
        for it in arr["es"]:
            it = hir.strip(it)
            if it.get("k") != "Tup" or len(it["es"]) != 2:
                return None
            name, ref = hir.strip(it["es"][0]), hir.strip(it["es"][1])
            if name.get("k") != "Lit" or ref.get("k") != "Path":
                return None
            kids.append((name["lit"]["v"], ref["res"]["path"]))
        return kids, opt_id(f["command"]), opt_id(f["query"])

    def root_static(self):
        if self.root_fn is None:
            return None
        v = hir.strip(self.root_fn["value"])
        if v.get("k") == "Path" and v["res"].get("dk", "").startswith("Static"):
            return v["res"]["path"]
        return None

    def language(self):
        """Walk the emitted trie: -> ({(path upper, kind): id}, problems[list of str], visited statics)"""
        lang = {}
        problems = []
        root = self.root_static()
        if root is None:
            return None, ["root_node() does not return a reference to a static"], set()
        seen = set()

        def walk(path, prefix, depth):
            if depth > 12:
                problems.append("trie deeper than 12 at %s" % (prefix,))
                return
            n = self.node(path)
            if n is None:
                problems.append("static %s has an unexpected shape" % path)
                return
            seen.add(path)
            kids, cmd, qry = n
            if cmd is not None and cmd != "?":
                lang[(prefix, "command")] = cmd
            if qry is not None and qry != "?":
                lang[(prefix, "query")] = qry
            if cmd == "?" or qry == "?":
                problems.append("static %s has a non-literal slot" % path)
            names = [k.upper() for k, _ in kids]
            if len(set(names)) != len(names):
                problems.append("node %s has sibling keys equal ignoring case: %s" % (prefix, sorted(names)))
            for name, ref in kids:
                walk(ref, prefix + (name.upper(),), depth + 1)
        walk(root, (), 0)
        return lang, problems, seen


def opt_id(e):
    e = hir.strip(e)
    if e.get("k") == "Path" and e["res"].get("path", "").endswith("Option::None"):
        return None
    if e.get("k") == "Call" and (e.get("callee") or "").endswith("Option::Some") and len(e["args"]) == 1:
        a = hir.strip(e["args"][0])
        if a.get("k") == "Lit" and a["lit"]["t"] == "int":
            return a["lit"]["v"]
    return "?"


# ------------------------------------------------------------------------------------------------
import pathsum  # noqa: E402
from pathsum import ERR, NONE, OK, SOME, show_term  # noqa: E402

SUPPORT = ("::len", "::get", "::try_into", "::write_response", "::into", "::from")
UNPARAM = "microscpi::error::Error::UnexpectedNumberOfParameters"
UNDEF = "microscpi::error::Error::UndefinedHeader"
WRITE_RESPONSE = "microscpi::response::Response::write_response"


class Arms:
    """Path summaries of a generated execute_command, grouped by match arm."""

    def __init__(self, iface, enums):
        self.iface = iface
        b = iface.exec_fn
        self.ok = b is not None
        if not self.ok:
            return
        self.ps = pathsum.PathSum(enums)
        self.params = [p.get("name") for p in b["params"]]
        self.exits = self.ps.summarize(hir.async_full(b["value"]), b["params"])
        self.by_arm = {}
        self.wild = []
        cid = ("param", self.params[1]) if len(self.params) > 1 else None
        for x in self.exits:
            k = None
            for c in x.conds:
                if c[0] == "eq" and c[1] == cid and c[3] and c[2][0] == "lit":
                    k = c[2][2]
            if k is None:
                self.wild.append(x)
            else:
                self.by_arm.setdefault(k, []).append(x)

    def handler_calls(self, x):
        out = []
        for e in x.effects:
            if e[0] == "call" and (e[1].startswith("wit::") or e[1].startswith("<wit::") or e[1].startswith("microscpi::commands::")):
                out.append(e)
        return out

    def arity_atom(self, x):
        """-> (n, value) for the cond `(len(args) Ne n)` on the path, or None"""
        args = ("param", self.params[2])
        for c in x.conds:
            if c[0] == "true" and c[1][0] == "bin" and c[1][2][0] == "call" and c[1][2][1].endswith("::len") and c[1][2][2] == (args,) \
                    and c[1][3][0] == "lit":
                return c[1][1], c[1][3][2], c[2]
        return None


def compile_cases(ck, specs, tag="cf"):
    """Compile a crate of case modules once (no facts); -> (rc, {mod: [error blocks]}, unattributed error blocks)"""
    import ctx
    import re
    rendered = [S.render(s) for s in specs]
    src = "#![no_std]\n#![allow(async_fn_in_trait)]\n" + "\n".join(rendered) + "\n"
    d, h = _write_ws(src)
    fs = ctx.factset(ck, "%s-%s" % (tag, h), custom=(os.path.join(d, "wit"), ["--lib"], "__none__", tag + h))
    starts = []
    line = 3
    for sp, r in zip(specs, rendered):
        starts.append((line, line + r.count("\n"), sp["mod"]))
        line += r.count("\n") + 1
    per = {sp["mod"]: [] for sp in specs}
    other = []
    log = re.sub(r"\x1b\[[0-9;]*m", "", fs.log)
    for blk in re.split(r"\n(?=error)", log):
        if not blk.startswith("error"):
            continue
        if blk.startswith("error: could not compile") or blk.startswith("error: aborting"):
            continue
        m = re.search(r"--> src/lib\.rs:(\d+):", blk)
        hit = None
        if m:
            ln = int(m.group(1))
            for (a, b, mod) in starts:
                if a <= ln <= b:
                    hit = mod
        if hit:
            per[hit].append(blk.strip())
        else:
            other.append(blk.strip())
    return fs.rc, per, other


# ------------------------------------------------------------------------------------------------
# The repository's own interfaces (tests, bench, fuzz targets) as additional witnesses: declarations are read from the
# attribute text of the source files ("cover what the build covers"); the emitted trie comes from the `tgt` fact set.
def repo_interfaces():
    """-> list of dicts(file, type, flags, decls[{cmd, fn}])"""
    import re
    out = []
    root = facts.REPO
    files = []
    for sub in ("microscpi/tests", "microscpi/benches", "microscpi/fuzz/fuzz_targets"):
        d = os.path.join(root, sub)
        if os.path.isdir(d):
            files += [os.path.join(d, f) for f in sorted(os.listdir(d)) if f.endswith(".rs")]
    for fpath in files:
        src = open(fpath).read()
        for m in re.finditer(r"#\[(?:\w+::)*interface(?:\(([^)]*)\))?\]\s*impl(?:<[^>]*>)?\s+([\w:<>]+)\s*\{", src):
            flags = [f.strip() for f in (m.group(1) or "").split(",") if f.strip()]
            # body of the impl block by brace matching
            i = m.end()
            depth = 1
            j = i
            while j < len(src) and depth:
                if src[j] == "{":
                    depth += 1
                elif src[j] == "}":
                    depth -= 1
                j += 1
            body = src[i:j]
            decls = []
            for d in re.finditer(r"#\[scpi\(\s*cmd\s*=\s*\"([^\"]+)\"\s*\)\]\s*(?:pub\s+)?(?:async\s+)?fn\s+(\w+)", body):
                decls.append({"cmd": d.group(1), "fn": d.group(2), "params": [], "ret": "?", "async": True})
            out.append({"file": os.path.relpath(fpath, root), "type": m.group(2), "flags": flags, "decls": decls, "mod": os.path.basename(fpath)[:-3]})
    return out


class RepoIface(Iface):
    """An interface of one of the repository's own targets, located in a `tgt` fact file by its Self type."""

    def __init__(self, crate, spec):
        self.spec = spec
        self.crate = crate
        self.root_fn = None
        self.exec_fn = None
        ty = spec["type"]
        for b in crate.facts["bodies"]:
            if b.get("trait") == "microscpi::interface::Interface" and b.get("self_ty", "").split("::")[-1] == ty:
                if b.get("name") == "root_node":
                    self.root_fn = b
                elif b.get("name") == "execute_command":
                    self.exec_fn = b
        self.mod = None
        self.statics = {}
        rs = self.root_static()
        if rs:
            self.mod = rs.rsplit("::", 1)[0]
            for b in crate.facts["bodies"]:
                if b["kind"].startswith("Static") and b["def"].startswith(self.mod + "::SCPI_NODE_"):
                    self.statics[b["def"]] = b
