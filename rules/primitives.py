"""primitives: the contracts of the four parser combinators, read from their own bodies.

The skeleton (skeleton.py) reasons about every parser of parser.rs through take_while / satisfy / tag / optional and takes
their meaning as given; this module checks that meaning against the combinators' path summaries on every run:

  satisfy(pred)(i)     non-empty and pred(first byte): Ok((i without its first byte, that byte));
                       non-empty and not pred: an error of kind soft (never Incomplete, never fatal);
                       empty: Err(Incomplete); nothing else.
  take_while(pred)(i)  never fails; returns (rest, taken) with taken ++ rest = i, taken the longest prefix whose bytes all
                       satisfy pred - recognised in two forms: `position(|b| !pred(b))` with i[pos..] / i[..pos] (and
                       (empty, i) when no byte fails), or a counting loop `k = 0; while k < len && pred(i[k]) { k += 1 }`
                       followed by i[k..] / i[..k].
  optional(p)(i)       never fails; p Ok((r, v)) -> Ok((r, Some(v))); otherwise Ok((i, None)).
  tag(b)               = satisfy(|x| x == b)  (the closure denotes exactly {b} for sample bytes b).
"""
import bytecls
import hir
import pathsum
from pathsum import ERR, NONE, OK, SOME, show_term, strip_sites

P = "microscpi::parser::"
PE = "microscpi::parser::ParseError::"
LEN = "core::slice::len"


def S(t):
    return strip_sites(t)


def _is_pred(t, name):
    return t[0] in ("param", "local") and t[-1] == name


def _one(i):
    return ("lit", "int", 1)


def _tail_after_one(t, i):
    """t = i[1..] | i.split_first().1 | i.split_at(1).1"""
    if t[0] == "index" and t[1] == i and t[2][0] == "struct" and t[2][1].endswith("RangeFrom") and dict(t[2][2]).get("start") == ("lit", "int", 1):
        return True
    if t[0] == "tproj" and t[2] == 1 and t[1][0] == "payload" and t[1][2] == SOME and t[1][1][0] == "call" and t[1][1][1].endswith("::split_first") and t[1][1][2] == (i,):
        return True
    if t[0] == "tproj" and t[2] == 1 and t[1][0] == "call" and t[1][1].endswith("::split_at") and t[1][2] == (i, ("lit", "int", 1)):
        return True
    return False


def _head_byte(t, i):
    """t = *i.first()? | i.split_first()?.0 | i[0]"""
    if t[0] == "payload" and t[2] == SOME and t[1][0] == "call" and t[1][1].endswith("::first") and t[1][2] == (i,):
        return True
    if t[0] == "tproj" and t[2] == 0 and t[1][0] == "payload" and t[1][2] == SOME and t[1][1][0] == "call" and t[1][1][1].endswith("::split_first") and t[1][1][2] == (i,):
        return True
    if t[0] == "index" and t[1] == i and t[2] == ("lit", "int", 0):
        return True
    return False


def _nonempty(conds, i):
    """Is `i` known non-empty (True) / empty (False) on the path, from a head test?"""
    for c in conds:
        if c[0] == "is" and c[2] == SOME and c[1][0] == "call" and c[1][1].split("::")[-1] in ("first", "split_first") and c[1][2] == (i,):
            return c[3]
        if c[0] == "true" and c[1][0] == "call" and c[1][1].endswith("::is_empty") and c[1][2] == (i,):
            return not c[2]
        if c[0] == "empty" and c[1] == i:
            return not c[2]
    return None


def check(ck, lib, sk, rid):
    check_satisfy(ck, lib, sk, rid)
    check_take_while(ck, lib, sk, rid)
    check_optional(ck, lib, sk, rid)
    check_tag(ck, lib, sk, rid)


# ------------------------------------------------------------------ satisfy
def check_satisfy(ck, lib, sk, rid):
    f = sk.fns.get(P + "satisfy")
    if not ck.anchor(rid, P + "satisfy", f):
        return
    i = f["inp"]
    pname = f["params"][0]
    seen = set()
    for n, x in enumerate(f["exits"]):
        conds = [S(c) for c in x.conds]
        v = S(x.value) if x.value is not None else None
        ne = _nonempty(conds, i)
        pc = None
        parg = None
        for c in conds:
            if c[0] == "true" and c[1][0] == "apply" and _is_pred(c[1][1], pname) and len(c[1][2]) == 1:
                pc, parg = c[2], c[1][2][0]
        key = "satisfy:exit#%d" % n
        data = pathsum.show_exit(x)[:600]
        if x.kind not in ("return", "err") or v is None or v[0] != "ctor" or v[1] not in (OK, ERR):
            ck.bad(rid, key, "satisfy leaves through something else than Ok/Err: %s" % x.kind, data=data)
            continue
        if ne is True and pc is True:
            seen.add("ok")
            ok = v[1] == OK and v[2][0][0] == "tuple" and len(v[2][0][1]) == 2 and _tail_after_one(v[2][0][1][0], i) and _head_byte(v[2][0][1][1], i) and _head_byte(parg, i)
            ck.judge(ok, rid, key, "first byte satisfies the predicate: Ok((input[1..], first byte))",
                     "satisfy accepts with %s; expected Ok((input without its first byte, that byte)) after testing the predicate on the first byte" % show_term(v), data=data)
        elif ne is True and pc is False:
            seen.add("reject")
            kinds = sk.err_kinds(v[2][0], x, f["ps"]) if v[1] == ERR else None
            ck.judge(kinds == {"soft"} and _head_byte(parg, i), rid, key, "first byte fails the predicate: soft error",
                     "satisfy answers a byte that fails the predicate with %s (kinds %s); expected a soft error" % (show_term(v), sorted(kinds) if kinds else None), data=data)
        elif ne is False:
            seen.add("empty")
            ok = v == ("ctor", ERR, (("ctor", PE + "Incomplete", ()),)) and pc is None
            ck.judge(ok, rid, key, "empty input: Err(Incomplete)", "satisfy answers empty input with %s; expected Err(Incomplete)" % show_term(v), data=data)
        else:
            ck.bad(rid, key, "an exit of satisfy is not one of: byte accepted / byte rejected / input empty (head test %s, predicate %s): %s" % (ne, pc, show_term(v)), data=data)
    ck.judge(seen == {"ok", "reject", "empty"}, rid, "satisfy:cases", "satisfy has its three outcomes", "satisfy lacks an outcome: has %s of accept / reject / empty" % sorted(seen))


# ------------------------------------------------------------------ take_while
def check_take_while(ck, lib, sk, rid):
    f = sk.fns.get(P + "take_while")
    if not ck.anchor(rid, P + "take_while", f):
        return
    i = f["inp"]
    pname = f["params"][0]
    ps = f["ps"]
    exits = f["exits"]
    rets = [x for x in exits if x.kind in ("return", "err")]
    bad_exit = [x for x in exits if x.kind not in ("return", "err", "backedge")]
    if bad_exit or any(x.value is None or S(x.value)[0] != "ctor" or S(x.value)[1] != OK for x in rets):
        ck.bad(rid, "take_while:total", "take_while can leave with something else than Ok (it must accept the empty prefix)",
               data=[pathsum.show_exit(x)[:300] for x in exits][:4])
        return
    ck.ok(rid, "take_while:total", "every exit of take_while is Ok")
    loops = ps.loops
    if not loops:
        _take_while_position(ck, rid, f, i, pname, rets)
    elif len(loops) == 1:
        _take_while_counting(ck, rid, f, i, pname, exits, rets)
    else:
        ck.bad(rid, "take_while:form", "take_while has %d loops: neither the position() form nor the counting-loop form" % len(loops))


def _split_at_k(v, i, k):
    """v = Ok((i[k..], i[..k]))  or  Ok((i.split_at(k).1, i.split_at(k).0))"""
    if not (v[0] == "ctor" and v[1] == OK and v[2][0][0] == "tuple" and len(v[2][0][1]) == 2):
        return False
    r, t = v[2][0][1]
    a = (r[0] == "index" and r[1] == i and r[2][0] == "struct" and r[2][1].endswith("RangeFrom") and dict(r[2][2]).get("start") == k
         and t[0] == "index" and t[1] == i and t[2][0] == "struct" and ((t[2][1].endswith("RangeTo") and dict(t[2][2]).get("end") == k)
                                                                         or (t[2][1].endswith("::Range") and dict(t[2][2]).get("start") == ("lit", "int", 0) and dict(t[2][2]).get("end") == k)))
    sa = ("call", "core::slice::split_at", (i, k))
    b = r[0] == "tproj" and r[2] == 1 and t[0] == "tproj" and t[2] == 0 and r[1] == t[1] and r[1][0] == "call" and r[1][1].endswith("::split_at") and r[1][2] == (i, k)
    return a or b


def _whole(t, i):
    """t is all of i: i | i[..] | i[..len(i)] | i.split_at(len(i)).0"""
    n = ("call", LEN, (i,))
    if t == i:
        return True
    if t[0] == "index" and t[1] == i and t[2][0] == "struct":
        f = dict(t[2][2])
        return t[2][1].endswith("RangeFull") or (t[2][1].endswith("RangeTo") and f.get("end") == n) or (t[2][1].endswith("::Range") and f.get("start") == ("lit", "int", 0) and f.get("end") == n)
    return t[0] == "tproj" and t[2] == 0 and t[1][0] == "call" and t[1][1].endswith("::split_at") and t[1][2] == (i, n)


def _empty_tail(t, i):
    """t is the empty slice (at the end of i): &[] | i[len(i)..] | i.split_at(len(i)).1"""
    n = ("call", LEN, (i,))
    if t == ("array", ()):
        return True
    if t[0] == "index" and t[1] == i and t[2][0] == "struct" and t[2][1].endswith("RangeFrom") and dict(t[2][2]).get("start") == n:
        return True
    return t[0] == "tproj" and t[2] == 1 and t[1][0] == "call" and t[1][1].endswith("::split_at") and t[1][2] == (i, n)


def _take_while_position(ck, rid, f, i, pname, rets):
    ps = f["ps"]
    n_some = n_none = 0
    for n, x in enumerate(rets):
        conds = [S(c) for c in x.conds]
        v = S(x.value)
        pos = None
        d = None
        for c in conds:
            if c[0] == "is" and c[2] == SOME and c[1][0] == "call" and c[1][1].endswith("::position") and len(c[1][2]) == 2 \
                    and c[1][2][0][0] == "call" and c[1][2][0][1].endswith("::iter") and c[1][2][0][2] == (i,):
                pos, d = c[1], c[3]
        key = "take_while:exit#%d" % n
        data = pathsum.show_exit(x)[:600]
        if pos is None:
            ck.bad(rid, key, "an exit of take_while does not depend on position(|b| !pred(b)) over the whole input", data=data)
            continue
        # the searched predicate is the negation of pred on the element
        cl = pos[2][1]
        okp = False
        if cl[0] == "closure":
            outs = ps.apply_closure(cl[1], [("sym", "b")], pathsum.St(()))
            vals = [S(o[2]) for o in outs if o[0] == "val"]
            okp = len(vals) == 1 and vals[0][0] == "not" and vals[0][1][0] == "apply" and _is_pred(vals[0][1][1], pname) and vals[0][1][2] == (("sym", "b"),)
        ck.judge(okp, rid, key + ":predicate", "searches the first byte with !pred(byte)", "take_while searches with something else than `!pred(byte)`", data=data)
        k = ("payload", pos, SOME, 0)
        if d:
            n_some += 1
            ck.judge(_split_at_k(v, i, k), rid, key, "a byte fails at pos: Ok((input[pos..], input[..pos]))",
                     "take_while returns %s when a byte fails the predicate at pos; expected Ok((input[pos..], input[..pos]))" % show_term(v), data=data)
        else:
            n_none += 1
            ok = v[0] == "ctor" and v[1] == OK and v[2][0][0] == "tuple" and len(v[2][0][1]) == 2 and _whole(v[2][0][1][1], i) and _empty_tail(v[2][0][1][0], i)
            ck.judge(ok, rid, key, "every byte satisfies the predicate: Ok((empty, input))", "take_while returns %s when no byte fails the predicate; expected Ok((empty, input))" % show_term(v), data=data)
    ck.judge(n_some >= 1 and n_none >= 1, rid, "take_while:cases", "both outcomes of the search are handled", "take_while lacks an outcome of the search (%d found / %d not found)" % (n_some, n_none))


def _take_while_counting(ck, rid, f, i, pname, exits, rets):
    ps = f["ps"]
    (site, info), = ps.loops.items()
    vars_ = info["vars"]
    if len(vars_) != 1:
        ck.bad(rid, "take_while:form", "the loop of take_while carries %s; expected one counter" % sorted(vars_.values()))
        return
    (kid, kname), = vars_.items()
    k = ("loopvar", kid, kname, site)
    ok0 = all(S(st.env.get(kid)) == ("lit", "int", 0) for st in info["entry"])
    ck.judge(ok0, rid, "take_while:counter-init", "counter starts at 0", "the counter of take_while does not start at 0")
    lt = ("bin", "Lt", k, ("call", LEN, (i,)))
    byte = ("index", i, k)

    def facts(x):
        conds = [S(c) for c in x.conds]
        inb = None
        pc = None
        other = []
        for c in conds:
            if c[0] == "true" and c[1] == lt:
                inb = c[2]
            elif c[0] == "true" and c[1][0] == "bin" and c[1][1] == "Gt" and c[1][2] == lt[3] and c[1][3] == k:
                inb = c[2]
            elif c[0] == "true" and c[1][0] == "apply" and _is_pred(c[1][1], pname) and c[1][2] == (byte,):
                pc = c[2]
            else:
                other.append(c)
        return inb, pc, other
    n_back = 0
    for n, x in enumerate(exits):
        if x.kind != "backedge":
            continue
        n_back += 1
        inb, pc, other = facts(x)
        k2 = S(x.env.get(kid))
        step = k2 == ("bin", "Add", k, ("lit", "int", 1)) or k2 == ("bin", "Add", ("lit", "int", 1), k)
        calls = [e for e in x.effects if e[0] in ("call", "apply") and not (e[0] == "call" and e[1] == LEN) and not (e[0] == "apply" and _is_pred(S(e[1]), pname))]
        ck.judge(inb is True and pc is True and step and not other and not calls, rid, "take_while:step#%d" % n_back,
                 "continues exactly when k < len and pred(input[k]), with k' = k + 1",
                 "the counting loop of take_while continues under (k < len: %s, pred(input[k]): %s, other tests: %d) with k' = %s" % (inb, pc, len(other), show_term(k2)), data=pathsum.show_exit(x)[:600])
    ck.judge(n_back == 1, rid, "take_while:one-step", "one way round the loop", "the counting loop of take_while has %d back-edges" % n_back)
    n_end = n_fail = 0
    for n, x in enumerate(rets):
        inb, pc, other = facts(x)
        v = S(x.value)
        key = "take_while:exit#%d" % n
        data = pathsum.show_exit(x)[:600]
        if inb is False and pc is None:
            n_end += 1
        elif inb is True and pc is False:
            n_fail += 1
        else:
            ck.bad(rid, key, "take_while stops under (k < len: %s, pred(input[k]): %s); expected: at the end of the input, or at a byte failing the predicate" % (inb, pc), data=data)
            continue
        ck.judge(_split_at_k(v, i, k) and not other, rid, key, "stops at k: Ok((input[k..], input[..k]))", "take_while returns %s at the stop position k; expected Ok((input[k..], input[..k]))" % show_term(v), data=data)
    ck.judge(n_end >= 1 and n_fail >= 1, rid, "take_while:cases", "stops at the end of the input and at a failing byte", "take_while lacks a stop case (%d end / %d failing byte)" % (n_end, n_fail))


# ------------------------------------------------------------------ optional
def check_optional(ck, lib, sk, rid):
    f = sk.fns.get(P + "optional")
    if not ck.anchor(rid, P + "optional", f):
        return
    i = f["inp"]
    pname = f["params"][0]
    n_ok = n_no = 0
    for n, x in enumerate(f["exits"]):
        conds = [S(c) for c in x.conds]
        v = S(x.value) if x.value is not None else None
        key = "optional:exit#%d" % n
        data = pathsum.show_exit(x)[:600]
        app = None
        d = None
        for c in conds:
            if c[0] == "is" and c[2] == OK and c[1][0] == "apply" and _is_pred(c[1][1], pname) and c[1][2] == (i,):
                app, d = c[1], c[3]
        if x.kind not in ("return", "err") or v is None or app is None:
            ck.bad(rid, key, "an exit of optional does not depend on the outcome of parser(input)", data=data)
            continue
        if d:
            n_ok += 1
            pl = ("payload", app, OK, 0)
            want = ("ctor", OK, (("tuple", (("tproj", pl, 0), ("ctor", SOME, (("tproj", pl, 1),)))),))
            ck.judge(v == want, rid, key, "parser succeeded: Ok((its remainder, Some(its value)))", "optional returns %s after a successful parser" % show_term(v), data=data)
        else:
            n_no += 1
            want = ("ctor", OK, (("tuple", (i, ("ctor", NONE, ()))),))
            ck.judge(v == want, rid, key, "parser failed: Ok((input, None))", "optional returns %s after a failed parser; expected Ok((input, None)) with the input untouched" % show_term(v), data=data)
    ck.judge(n_ok >= 1 and n_no >= 1, rid, "optional:cases", "both outcomes handled", "optional lacks an outcome (%d ok / %d failed)" % (n_ok, n_no))


# ------------------------------------------------------------------ tag
def check_tag(ck, lib, sk, rid):
    b = lib.body(P + "tag")
    if not ck.anchor(rid, P + "tag", b):
        return
    v = hir.strip(hir.async_full(b["value"]))
    while v.get("k") == "Block" and not v["stmts"] and v.get("expr"):
        v = hir.strip(v["expr"])
    ok = v.get("k") == "Call" and hir.base_path(v.get("callee") or "") == P + "satisfy" and len(v["args"]) == 1 and hir.strip(v["args"][0]).get("k") == "Closure"
    if not ck.judge(ok, rid, "tag:shape", "tag(b) = satisfy(<closure>)", "tag is not `satisfy(<closure>)`: the skeleton reads tag(b) as the one-byte recogniser of b"):
        return
    cl = hir.strip(v["args"][0])
    pid = b["params"][0].get("id")
    bad = []
    for byte in (0, 9, 10, 42, 59, 127, 255):
        try:
            cls = bytecls.denote_closure(cl, lib, {pid: byte})
        except bytecls.NotComputable:
            cls = None
        if cls != frozenset([byte]):
            bad.append((byte, bytecls.show_set(cls) if cls is not None else None))
    ck.judge(not bad, rid, "tag:class", "the closure of tag(b) denotes {b} (sampled b in 0, 9, 10, 42, 59, 127, 255)", "tag(b) accepts %s" % bad[:3])
