"""C08 - strings and blocks are transparent containers, also across reads."""
import bytecls
import ctx
import hir
import pathsum
import runsum
import skeleton
from pathsum import ERR, OK, SOME, St, show_term
from skeleton import P, PE, pid_name

RERUN_ON_CONFIGS = ("dfm", "std")
LEVEL = "other"
RULE_TEXT = ("C08-C: the payload class of each quoted-string recogniser denotes exactly all 256 bytes except the enclosing "
             "quote (so newline ; , : # and the other quote are payload) and the same byte opens and closes; the block "
             "recogniser takes its payload by a data-driven slice, never by a predicate. C08-I: newline-transparent "
             "parsers are computed (take_while class containing 10, data-driven slices, transitively); at every "
             "application of one, the error kind Incomplete is either propagated or excluded by an explicit kind test on "
             "that path - never dropped by optional/or_else/unwrap_or/map_err; optional() wraps no such parser. "
             "C08-V: the Value delivered is exactly the taken span. C08-G: a string or block recogniser rejects (other than Incomplete) only on a path where a sub-parser or a fallible conversion failed - never by a test of its own on the payload bytes. C08-R: run answers Incomplete silently with the "
             "input unchanged - on every parse-error path that has not excluded Incomplete - and starts every call at the root; run:resume-keeps-path: the header path of the units already executed survives the resumption of a message (open finding F9). run:resume-keeps-state: run carries no other local from unit to unit (it would be lost at a resumption as well). C08-RAW: run never examines the raw bytes of its input or of a parse remainder outside parse, except to find the terminator behind a failed parse (rule C11-R). C08-F: a unit is `terminated` exactly when its last consumer took a newline (rule C02-F). C08-I also covers a recogniser applied directly behind a newline-transparent scan (the closing quote). C08-C03V: the handler receives the payload itself (conversion table of C03). C08-C12I: an unfinished string or block is Incomplete, never cut short (rule C12-I)."
             " C08-PR: the contracts of the parser combinators the skeleton builds on are read from their bodies - satisfy (accept first byte iff pred / soft error / Incomplete on empty), take_while (never fails; longest prefix, position() form or counting-loop form), optional (never fails; Some(value) or input untouched), tag(b) = satisfy(== b).")


def run(ck):
    ck.trust("rustc HIR/typeck", "factdump", "pathsum", "bytecls evaluator")
    lib = ctx.lib(ck)
    if lib is None:
        return
    sk = skeleton.Skeleton(ck, lib)
    # the meaning of the parser combinators the skeleton is built from, read from their own bodies
    import primitives
    primitives.check(ck, lib, sk, "C08-PR")
    for pr in sk.problems:
        if not pr.endswith("::tag"):
            ck.bad("C08", "skeleton:" + pr, pr)
    rule_C(ck, lib, sk)
    # a container rejects only where its syntax does (a failed quote / length field / UTF-8 conversion), never by a test of
    # its own on the payload bytes: "any byte its syntax permits ... delivered verbatim" (same criterion as C03-G)
    import c03
    c03.reject_by_grammar(ck, sk, "C08-G", {"String", "Arbitrary"}, "payload", "string and block recognisers", 3)
    rule_I(ck, lib, sk, "C08-I")
    rule_R(ck, lib)
    # the bytes of an unfinished message are kept and offered again from their start: process's buffer discipline
    import c07
    c07.rule_K(ck, lib, "C08-P")
    # run never searches the raw bytes for a newline or separator while a unit has parsed (behind an execution error, say):
    # only the parser knows whether a newline is a terminator or payload (rule C11-R)
    import c11
    c11.rule_R(ck, lib, "C08-RAW")
    # a unit is `terminated` exactly when its last consumer took a newline byte as terminator - never because the input
    # happens to end behind a payload that ends in 0x0A (rule C02-F)
    import parsefields
    parsefields.check(ck, lib, sk, "C08-F", ("terminated",))
    # the handler receives the payload itself (no trimming, no re-encoding): the conversion table of C03
    import c03
    with ck.under("C03-", "C08-C03"):
        c03.rule_V(ck, lib)
    # a block or string that is not complete yet is Incomplete - never cut short at a newline that has arrived (C12-I)
    import c12
    with ck.under("C12-", "C08-C12"):
        c12.rule_I(ck, lib, sk)
    # what lies behind a failed parse is discarded by a search for the raw newline byte: none of its bytes - inside or outside
    # a payload of the faulty message - is read as a quote, separator or length field by anything but the parser (rule C06-R)
    import c06
    c06.rule_R(ck, lib, "C08-C06R")


def value_ctor(sk, x):
    r = sk.exit_result(x)
    if not r or r[0][0] != "ok":
        return None, None
    v = sk.val_of(r[0][1])
    if v[0] == "ctor" and v[1].startswith("microscpi::value::Value::"):
        return v[1].split("::")[-1], v
    return None, v


def rule_C(ck, lib, sk):
    n_str = 0
    n_blk = 0
    for path, f in sorted(sk.fns.items()):
        if f["kind"] != "direct":
            continue
        ps = f["ps"]
        for x in f["exits"]:
            kind, v = value_ctor(sk, x)
            if kind == "String":
                n_str += 1
                apps = [a for a in sk.apps_on_path(x, ps)]
                shape = [pid_name(a[0]) for a in apps]
                name = path.split("::")[-1]
                ok = len(apps) == 3 and apps[0][0][0] == "tag" and apps[1][0][0] == "take_while" and apps[2][0][0] == "tag"
                if not ck.judge(ok, "C08-C", "%s:shape" % name, "tag, take_while, tag: %s" % shape, "string recogniser is not open-quote, payload, close-quote: %s" % shape):
                    continue
                q = apps[0][0][1]
                cls = apps[1][0][1]
                want = frozenset(range(256)) - {q}
                ck.judge(cls == want, "C08-C", "%s:payload-class" % name, "payload class = %s" % bytecls.show_set(cls),
                         "payload class of the %r-quoted string is %s; it must be every byte except the quote (%s)" % (chr(q), bytecls.show_set(cls), bytecls.show_set(want)), apps[1][2][3])
                ck.judge(apps[2][0][1] == q, "C08-C", "%s:same-delimiter" % name, "opens and closes with %r" % chr(q),
                         "opens with %r but closes with %r" % (chr(q), chr(apps[2][0][1]) if apps[2][0][1] is not None else "?"))
                # threading: payload parser runs on the remainder of the open quote, close quote on the payload's remainder
                thr = apps[1][1] == ("tproj", ("payload", apps[0][2], OK, 0), 0) and apps[2][1] == ("tproj", ("payload", apps[1][2], OK, 0), 0)
                ck.judge(thr, "C08-C", "%s:threading" % name, "remainders threaded open -> payload -> close", "remainders are not threaded open -> payload -> close")
                # C08-V: the value is from_utf8 of exactly the taken part
                taken = ("tproj", ("payload", apps[1][2], OK, 0), 1)
                arg = v[2][0]
                okv = arg[0] == "payload" and arg[2] == OK and arg[1][0] == "call" and arg[1][1].endswith("from_utf8") and arg[1][2][0] == taken
                ck.judge(okv, "C08-V", "%s:value" % name, "Value::String(from_utf8(taken)?)", "string value is %s, not the taken payload" % show_term(arg))
            elif kind == "Arbitrary":
                n_blk += 1
                name = path.split("::")[-1]
                apps = sk.apps_on_path(x, ps)
                preds = [a for a in apps if a[0][0] == "take_while"]
                ck.judge(not preds, "C08-C", "%s:no-predicate" % name, "block payload is not scanned by a predicate: %s" % [pid_name(a[0]) for a in apps],
                         "block recogniser scans its payload with %s" % [pid_name(a[0]) for a in preds])
                r = sk.exit_result(x)[0][1]
                rem = sk.rem_of(r)
                val = v[2][0]
                halves = (val[0] == "tproj" and rem[0] == "tproj" and val[1] == rem[1] and (val[2], rem[2]) == (0, 1) and val[1][0] == "call"
                          and val[1][1].endswith("::split_at"))
                if halves:
                    base_, cnt_ = val[1][2]
                    g = guarded(sk, f, x, cnt_, base_)
                    ck.ok("C08-V", "%s:value" % name, "payload / remainder = rest.split_at(count)")
                    ck.judge(g, "C08-C", "%s:length-guard" % name, "taken only when rest.len() >= count", "payload split is not guarded by `rest.len() < count`")
                    continue
                ok = (val[0] == "index" and rem[0] == "index" and val[1] == rem[1] and val[2][0] == "struct" and val[2][1].endswith("RangeTo")
                      and rem[2][0] == "struct" and rem[2][1].endswith("RangeFrom") and dict(val[2][2]).get("end") == dict(rem[2][2]).get("start"))
                ck.judge(ok, "C08-V", "%s:value" % name, "payload = rest[..count], remainder = rest[count..]",
                         "block payload/remainder are not the two halves of one split: %s / %s" % (show_term(val), show_term(rem)))
                if ok:
                    cnt = dict(val[2][2]).get("end")
                    g2 = guarded(sk, f, x, cnt, val[1])
                    ck.judge(g2, "C08-C", "%s:length-guard" % name, "taken only when rest.len() >= count", "payload split is not guarded by `rest.len() < count`")
    ck.floor("C08-C", "string recognisers", n_str, 2)
    ck.floor("C08-C", "block recognisers", n_blk, 1)


def guarded(sk, f, x, cnt, base):
    """count <= len(rest) is entailed on the accepting path (a length test, a checked `get(..count)` ...): the payload is
    taken only when all of its bytes are there."""
    import fm
    import slicelin
    sl = slicelin.SliceLin(sk, f["ps"], f.get("inp"))
    facts = sl.premises(x) + sl.cond_facts(x)
    return fm.entails(facts, fm.le(sl.L(cnt), sl.ln(base)))


def rule_I(ck, lib, sk, rid):
    """Incomplete of a newline-transparent parser is never dropped."""
    nts = sorted(p.split("::")[-1] for p, f in sk.fns.items() if sk.attr(("fn" if f["kind"] == "direct" else "factory", p)).get("nt") and p.split("::")[-1] not in ("satisfy", "optional", "take_while"))
    # positive control of the computation: the recognisers of strings and blocks (found by the Value variant they return,
    # whatever they are called) and the parsers above them must come out newline-transparent
    must = {"argument", "arguments", "parse"}
    n_cont = 0
    for p, f in sk.fns.items():
        if f["kind"] == "direct" and any(value_ctor(sk, x)[0] in ("String", "Arbitrary") for x in f["exits"]):
            must.add(p.split("::")[-1])
            n_cont += 1
    ck.judge(must <= set(nts) and n_cont >= 3, rid, "nt-set", "newline-transparent parsers (computed): %s" % nts,
             "computed newline-transparent set %s lacks %s (string/block recognisers found: %d)" % (nts, sorted(must - set(nts)), n_cont))
    seen = {}
    n_sites = 0
    for d in sk.dropped():
        pid = d["pid"]
        if pid[0] == "param":
            continue
        a = sk.attr(pid)
        if not a.get("nt"):
            # a recogniser that cannot itself run across a newline, applied directly behind one that can and did (the closing
            # quote behind the text of a string): its Incomplete says the input ended inside that payload
            behind_nt = False
            f_ = sk.fns.get(d["fn"])
            if f_ is not None and d.get("inp") is not None and "incomplete" in d["lost"]:
                want = pathsum.strip_sites(d["inp"])
                for (pid2, inp2, t2, oc2) in sk.apps_on_path(d["exit"], f_["ps"]):
                    # (the scan itself - a take_while over a class with the newline -, not a whole recogniser that has
                    # returned: behind a complete string or block nothing is open any more)
                    if oc2 is True and pid2[0] == "take_while" and sk.attr(pid2).get("nt") and pathsum.strip_sites(("tproj", ("payload", t2, OK, 0), 0)) == want:
                        behind_nt = True
            if not behind_nt:
                continue
        key = "%s:%s" % (d["fn"].split("::")[-1], pid_name(pid))
        bad = "incomplete" in d["lost"]
        prev = seen.get(key)
        if prev is None or (bad and not prev[0]):
            seen[key] = (bad, d)
    for key, (bad, d) in sorted(seen.items()):
        n_sites += 1
        ck.judge(not bad, rid, "drop:" + key, "error of %s inspected before being dropped (kinds lost: %s)" % (pid_name(d["pid"]), sorted(d["lost"])),
                 "%s: the error of newline-transparent parser %s is dropped without testing its kind, so `Incomplete` (input ended inside a string/block whose payload contains the newline) is replaced by whatever the next alternative reports"
                 % (d["fn"].split("::")[-1], pid_name(d["pid"])), d["site"], data=pathsum.show_exit(d["exit"])[:1500])
    # propagation sites (positive count): applications of NT parsers whose failure is propagated
    n_prop = 0
    n_opt = 0
    for path, f in sorted(sk.fns.items()):
        ps = f["ps"]
        sites = set()
        for x in f["exits"]:
            for (pid, inp, t, oc) in sk.apps_on_path(x, ps):
                if pid[0] == "optional":
                    if t[3] in sites:
                        continue
                    sites.add(t[3])
                    n_opt += 1
                    inner = pid[1]
                    ia = sk.attr(inner) if inner and inner[0] != "param" else {"nt": True, "kinds": skeleton.ALL_KINDS}
                    bad = ia.get("nt") and "incomplete" in ia["kinds"]
                    if path.endswith("::optional"):
                        continue
                    ck.judge(not bad, rid, "optional:%s:%s" % (path.split("::")[-1], pid_name(inner)), "optional(%s): wrapped parser stops at byte 10" % pid_name(inner),
                             "optional() wraps newline-transparent parser %s and would turn its Incomplete into `absent`" % pid_name(inner), t[3])
                elif pid[0] != "param" and sk.attr(pid).get("nt") and oc is False:
                    n_prop += 1
    ck.floor(rid, "optional(..) application sites", n_opt, 8)
    ck.floor(rid, "failing applications of newline-transparent parsers examined", n_prop, 5)


def rule_N(ck, lib, sk, rid):
    """Only strings and blocks may contain the terminator byte: every recogniser that can itself run across a newline
    delivers a `Value::String` or `Value::Arbitrary`. Any other one would answer a *complete* message (one that leaves no
    string or block open) with Incomplete - no error reported, the message and everything behind it waits for more."""
    n = 0
    # who applies whom (parser functions only)
    callers = {}
    for p, f in sk.fns.items():
        for x in f["exits"]:
            for (pid, inp, t, oc) in sk.apps_on_path(x, f["ps"]):
                q = pid
                while q and q[0] == "optional" and q[1]:
                    q = q[1]
                if q and q[0] in ("fn", "factory"):
                    callers.setdefault(q[1], set()).add(p)

    def delivered(p):
        out = set()
        for x in sk.fns[p]["exits"]:
            c, v = value_ctor(sk, x)
            r = sk.exit_result(x)
            if r and r[0][0] == "ok":
                out.add(c or "?")
        return out

    def value_makers(p, seen):
        """the recognisers of program data that `p` is (part of): p itself when it builds a Value, else the parser functions
        that apply it, transitively (a private helper such as `the header of a block` belongs to what uses it)"""
        if p in seen:
            return set()
        seen.add(p)
        d = delivered(p)
        if d - {"?"}:
            return {p}
        ups = callers.get(p, set())
        if not ups:
            return {p}
        out = set()
        for u in ups:
            out |= value_makers(u, seen)
        return out

    for p, f in sorted(sk.fns.items()):
        if f["kind"] != "direct":
            continue
        why = sk.own_nt(p)
        if not why:
            continue
        n += 1
        makers = value_makers(p, set())
        ctors = set()
        for m_ in makers:
            ctors |= delivered(m_)
        ck.judge(ctors and ctors <= {"String", "Arbitrary"}, rid, "nt-leaf#%d:%s" % (n, "+".join(sorted(ctors))), "%s runs across newlines (%s) and delivers %s" % (p.split("::")[-1], ", ".join(why), sorted(ctors)),
                 "%s can run across a newline (%s) but delivers %s: program data other than a string or block that contains the terminator byte leaves a complete message unanswered (Incomplete)"
                 % (p.split("::")[-1], ", ".join(why), sorted(ctors) or "no value"), loc=f.get("loc"))
    ck.floor(rid, "recognisers that run across newlines by their own body", n, 3)


def rule_R(ck, lib):
    rs = runsum.RunSummary(ck, lib)
    if not rs.ok:
        return
    n = 0
    for x in rs.exits:
        d = rs.classify(x)
        # every path on which parse failed and Incomplete is not excluded (tested false) - also one that does not test it
        if d.get("has_parse") and d.get("parse_err") and d.get("incomplete") is not False:
            n += 1
            ck.judge(not d["handle_calls"] and x.kind in ("return", "err") and x.value == rs.input_arg, "C08-R", "run:incomplete-silent" + ("" if d.get("incomplete") else ":untested#%d" % n),
                     "Incomplete: nothing reported, input kept for the caller",
                     "run does not answer Incomplete silently with the unchanged input%s" % ("" if d.get("incomplete") else " (a parse-error path that never tests for Incomplete reports / moves on)"),
                     data=pathsum.show_exit(x)[:1000])
    ck.floor("C08-R", "Incomplete paths of run", n, 1)
    # A unit that is answered Incomplete is offered again by the caller and then parsed by a *new* call of run, which
    # starts at the root. That is the same resolution only if the path in force when the unit was first tried is the root
    # too - i.e. no earlier unit of the same message has moved it - or if run hands the path back to its caller.
    if rs.path_id is not None:
        values = []
        for x in rs.exits:
            if x.kind == "backedge" and x.extra == rs.loop_site:
                values.append((x.env.get(rs.path_id), x))
        moved = [(v, x) for (v, x) in values if v is not None and not runsum.is_root(v) and v != rs.path_arg]
        handed_back = False
        for x in rs.exits:
            d = rs.classify(x)
            if d.get("has_parse") and d.get("parse_err") and d.get("incomplete") and x.value is not None:
                if any(u == rs.path_arg for u in pathsum.subterms(x.value)):
                    handed_back = True
        ck.judge(not moved or handed_back, "C08-R", "run:resume-keeps-path",
                 "a unit retried after Incomplete is resolved under the same path" + (" (the path is handed back to the caller)" if handed_back else " (the path is always the root there)"),
                 "a unit answered Incomplete (a string or block whose payload contains the newline at which process called run) is retried by a new call of run at the ROOT, "
                 "but when it was first tried the path could be `%s` (set by an earlier unit of the same message): streamed, `A:B;C 'x\\ny'` resolves C at the root instead of under A"
                 % (show_term(moved[0][0]) if moved else "?"), data=pathsum.show_exit(moved[0][1])[:1200] if moved else None)
    # the same holds for any other local that run carries from unit to unit: a call of run that ends with Incomplete forgets
    # it, and the units of the message that follow the payload newline are executed without it
    vars_ = rs.ps.loops.get(rs.loop_site, {}).get("vars", {})
    extra = sorted(n for i, n in vars_.items() if i not in (rs.path_id, rs.input_id))
    ck.judge(not extra, "C08-R", "run:resume-keeps-state", "run carries nothing but (input, path) from unit to unit",
             "run carries %s from unit to unit; it is a local of one call, so it is lost when a message is resumed after a payload newline "
             "(the units behind the newline execute differently from the same message without it)" % extra)
    for st in rs.ps.loops.get(rs.loop_site, {"entry": []})["entry"]:
        v = st.env.get(rs.path_id)
        ck.judge(v is not None and runsum.is_root(v), "C08-R", "run:restart-at-root", "every run call starts at the root", "run does not start at the root")
