"""C13 - no heap allocation; builds without std and allocator."""
import ctx

LEVEL = "proof"
RULE_TEXT = ("C13-G: obligations over the crate graph and crate attributes of the default-feature build of the "
             "library (rustc facts): #![no_std] in force, no `extern crate alloc|std`, neither alloc nor std among "
             "the loaded crates, every MIR call and every local type names only crates of that graph, build succeeds. "
             "C13-S: with feature std, bodies shared with the no_std build call nothing in alloc/std and "
             "hold no alloc-typed local; allocation is confined to bodies that exist only under the std feature. "
             "Under std only impls for growable containers (Vec, String, VecDeque) may call an allocating function (constructors of Box/Arc/Rc, growth of Vec/String, format, to_string/to_owned/to_string_lossy, collect, thread creation) - any other std-only body that does (a blocking entry point, a lossy path response) is reported. "
             "C13-W: a #![no_std] crate with the witness interfaces builds and loads neither alloc nor std. "
             "C13-Q: the identifiers the macro crate's quote! fragments emit (read from its HIR, token by token) name no "
             "alloc/std item (Vec, String, Box, format!, .to_string() ... or a path rooted in std/alloc).")

ALLOC_CRATES = {"alloc", "std"}

# callees that obtain heap memory (constructors of owning heap types, growth of growable containers, formatting into a
# String, thread creation); `Vec::new()` / `String::new()` do not allocate
import re
ALLOCATING = re.compile(
    r"^(alloc|std)::(boxed::Box|sync::Arc|rc::Rc)(<[^:]*>)?::(new|pin|from|new_uninit|clone)\b"
    r"|^(alloc|std)::(vec::Vec|string::String|collections::[a-z_]+::[A-Za-z]+)(<[^:]*>)?::(with_capacity|from|push|push_str|push_back|push_front|insert|extend|extend_from_slice|reserve|reserve_exact|resize|append|clone|from_utf8_lossy|into_boxed_slice)\b"
    r"|^alloc::fmt::format\b|^alloc::alloc::|^alloc::slice::<impl \[T\]>::(to_vec|concat|join|repeat)\b|^alloc::str::<impl str>::(to_owned|to_string|repeat|to_uppercase|to_lowercase|replace)\b"
    r"|to_string_lossy\b|::into_owned\b|::to_path_buf\b|::to_os_string\b|::into_string\b"
    r"|ToString>::to_string\b|ToOwned>::to_owned\b|^std::thread::(spawn|Builder|scope)\b|<(alloc|std)::(sync::Arc|boxed::Box|rc::Rc)<.*> as core::convert::From<|as core::convert::From<(alloc|std)::(sync::Arc|boxed::Box)"
    r"|as core::iter::traits::collect::FromIterator|^core::iter::traits::iterator::Iterator::collect::<(alloc|std)::")


def allocating_calls(crate, root):
    out = []
    for m in crate.facts["mir"]:
        if m["def"].split("::{closure")[0] != root:
            continue
        for b in m["blocks"]:
            t = b["term"]
            if t["k"] == "Call" and t.get("callee"):
                for c in (t.get("resolved") or "", t["callee"]):
                    if c and (ALLOCATING.search(c) or ALLOCATING.search(re.sub(r"::<[^<>]*(<[^<>]*>[^<>]*)*>", "", c))):
                        out.append(c)
                        break
    return sorted(set(out))


def run(ck):
    ck.trust("rustc crate loading (tcx.crates) and cfg evaluation", "factdump (dumper without analysis logic)",
             "heapless 0.8 built without an allocating feature")
    ck.assume("a crate that is not in the crate graph cannot be called: without `alloc` no body can allocate")
    lib = ctx.lib(ck, "lib")
    if lib is None:
        return
    f = lib.facts
    ck.judge(f["no_std"], "C13-G", "attr:no_std", "#![no_std] is active in the default-feature build",
             "#![no_std] is NOT active in the default-feature build of the library", loc="microscpi/src/lib.rs")
    crates = [c["name"] for c in f["crates"]]
    for bad in sorted(ALLOC_CRATES):
        ck.judge(bad not in crates, "C13-G", "crate-graph:no-" + bad, "crate graph %s has no `%s`" % (crates, bad),
                 "crate `%s` is loaded by the default-feature build (crate graph %s)" % (bad, crates))
    ec = [e for e in f["extern_crates"] if e["name"] in ALLOC_CRATES or (e.get("orig") in ALLOC_CRATES)]
    ck.judge(not ec, "C13-G", "items:no-extern-crate-alloc", "no `extern crate alloc|std` item",
             "extern crate item(s) %s" % [(e["name"], e["orig"], e["sp"][0], e["sp"][1]) for e in ec])
    ck.judge("feature=\"std\"" not in " ".join(f["cfg"]), "C13-G", "cfg:default-features", "features: %s" % f["cfg"],
             "default build unexpectedly has feature std: %s" % f["cfg"])
    # every call site and local type stays inside the graph (redundant with the graph, but counted per site)
    n_calls = 0
    bad_calls = []
    bad_types = []
    for m in f["mir"]:
        ck.fn(m["def"])
        for l in m["locals"]:
            if "alloc::" in l["ty"] or "std::" in l["ty"].replace("no_std", ""):
                bad_types.append((m["def"], l["ty"]))
        for b in m["blocks"]:
            t = b["term"]
            if t["k"] == "Call" and t.get("callee"):
                n_calls += 1
                if t.get("callee_crate") in ALLOC_CRATES:
                    bad_calls.append((m["def"], t["callee"], t["sp"][0], t["sp"][1]))
    ck.analysed["call_sites"] = n_calls
    ck.judge(not bad_calls, "C13-G", "mir:callee-crates", "%d MIR call sites, none into alloc/std" % n_calls, "calls into alloc/std: %s" % bad_calls[:5])
    ck.judge(not bad_types, "C13-G", "mir:local-types", "no local of an alloc/std type in %d bodies" % len(f["mir"]), "alloc-typed locals: %s" % bad_types[:5])
    ck.floor("C13-G", "MIR bodies of the library", len(f["mir"]), 150)
    ck.floor("C13-G", "MIR call sites of the library", n_calls, 400)

    # C13-W: a #![no_std] crate that uses the attribute macro (the witness interfaces) builds, and its crate graph has
    # neither alloc nor std: the generated code names nothing outside core / microscpi
    import witness
    fs, specs, failures = witness.build(ck, ck.seed, 40 if ck.tier == "quick" else 400)
    wit = fs.crate("wit.rlib")
    for (sp, msg) in failures:
        ck.bad("C13-W", "witness:%s:no_std-build" % (sp["mod"] if sp else "crate"), "a #![no_std] crate using #[microscpi::interface] does not build: %s" % msg[:600])
    if wit is not None:
        wc = [c["name"] for c in wit.facts["crates"]]
        ck.judge(wit.facts["no_std"], "C13-W", "witness:no_std", "the witness crate is #![no_std]", "witness crate is not no_std (harness error)")
        ck.judge(not (set(wc) & ALLOC_CRATES), "C13-W", "witness:crate-graph", "no_std user crate with %d macro-generated interfaces: crate graph %s" % (len(specs), wc),
                 "a no_std crate using the macro loads %s" % sorted(set(wc) & ALLOC_CRATES))
        nbad = []
        for m in wit.facts["mir"]:
            for b in m["blocks"]:
                t = b["term"]
                if t["k"] == "Call" and t.get("callee_crate") in ALLOC_CRATES:
                    nbad.append((m["def"], t["callee"]))
        ck.judge(not nbad, "C13-W", "witness:mir-callee-crates", "generated dispatchers call nothing in alloc/std", "generated code calls %s" % nbad[:3])
    elif not failures:
        ck.bad("C13-W", "witness:build", "no facts for the no_std witness crate")

    # C13-Q: the vocabulary of the code the macro emits, for every handler form it can generate code for (not only the
    # forms the witness interfaces use): no item of alloc/std is named
    import quoted
    mac = ctx.macros(ck)
    if mac is not None:
        quoted.check(ck, mac, "C13-Q")

    if True:      # both tiers: the std and defmt configurations cost one extraction each
        std = ctx.lib(ck, "std")
        if std is None:
            return
        lib_defs = {m["def"] for m in f["mir"]}
        std_only = set()
        shared_bad = []
        n = 0
        for m in std.facts["mir"]:
            root = m["def"].split("::{closure")[0]
            only = root not in lib_defs
            uses = []
            for l in m["locals"]:
                if "alloc::" in l["ty"]:
                    uses.append("local:" + l["ty"])
            for b in m["blocks"]:
                t = b["term"]
                if t["k"] == "Call" and t.get("callee"):
                    n += 1
                    if t.get("callee_crate") in ALLOC_CRATES or (t.get("resolved") or "").startswith("alloc::"):
                        uses.append("call:" + t["callee"])
            if uses:
                if only:
                    std_only.add(root)
                else:
                    shared_bad.append((m["def"], uses[:3]))
        # what may allocate under `std` is the writer into a growable buffer (`impl Write for Vec<u8>`): it is not one of the
        # "fixed-capacity buffer" paths the property speaks of. Any other std-only body that allocates - a blocking
        # entry point, a convenience wrapper - allocates while parsing/dispatching/formatting into a fixed buffer.
        stray = []
        growable = set()
        for root in sorted(std_only):
            b = std.body(root)
            # impls *for* a growable type (`impl Write for Vec<u8>`, `impl Response for String`): the caller chose the heap
            if b is not None and re.match(r"(alloc|std)::(vec::Vec|string::String|collections::vec_deque::VecDeque)\b", b.get("self_ty") or ""):
                growable.add(root)
        for root in sorted(std_only):
            if root in growable or any(g in root for g in growable):
                continue        # ... including helper items nested inside such a method
            # using std (an io::Error, a TcpStream) is not allocating: only calls that obtain heap memory count
            calls = allocating_calls(std, root)
            if calls:
                stray.append((root, calls[:2]))
        ck.judge(not stray, "C13-S", "std:allocating-bodies", "under feature std only impls for growable types (Vec<u8>, String) touch the heap: %s" % sorted(std_only),
                 "under feature std, bodies other than the writer into a growable buffer allocate: %s (heap allocation on a path that serves fixed-capacity buffers too)" % stray[:4])
        ck.judge(not shared_bad, "C13-S", "std:confinement", "with feature std: %d call sites; allocation only in std-only bodies %s" % (n, sorted(std_only)),
                 "bodies that also exist in the no_std build use alloc under feature std: %s" % shared_bad[:5])
        ck.judge(std.facts["no_std"] is False, "C13-S", "std:cfg-sanity", "feature std build is not no_std (positive control for the attribute reader)",
                 "attribute reader reports no_std under feature std")
        ck.floor("C13-S", "std-only allocating bodies (positive control)", len(std_only), 1)
        dfm = ctx.lib(ck, "dfm")
        if dfm is not None:
            dc = [c["name"] for c in dfm.facts["crates"]]
            ck.judge(dfm.facts["no_std"] and not (set(dc) & ALLOC_CRATES), "C13-G", "defmt:crate-graph",
                     "feature defmt build is no_std with crate graph %s" % dc, "feature defmt build loads alloc/std: %s" % dc)
