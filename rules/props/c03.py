"""C03 - handlers receive exactly the argument values written, or are not called."""
import re

import bytecls
import ctx
import hir
import pathsum
import skeleton
import witness
from pathsum import ERR, OK, SOME, St, show_term, strip_sites
from skeleton import P, pid_name

RERUN_ON_CONFIGS = ("dfm", "std")
LEVEL = "other"
RULE_TEXT = ("C03-V sibling agreement of the conversion impls in value.rs, arm by arm: for integer target T Decimal/Hexa"
             "decimal/Binary/Octal call T::from_str_radix (the callee's Self IS T) with radix 10/16/2/8 on the variant's own "
             "text, failure -> NumericDataError, every other variant -> DataTypeError, no `as` cast; floats: Decimal -> "
             "str::parse::<T>; bool: literal table contains ON/1 -> true, OFF/0 -> false, no literal on the wrong side, "
             "default IllegalParameterValue; &str only String, &[u8] only Arbitrary, payload itself; by-value impls delegate. "
             "C03-G recogniser table: #H/#h -> Hexadecimal -> 16, #B/#b -> Binary -> 2, #Q/#q -> Octal -> 8, digit classes "
             "cover the radix digits, first-digit class = rest class, the variant's text is exactly the consumed span. "
             "C03-A (witness interfaces) every generated arm: guard args.len() != n (n = declared parameters) -> "
             "UnexpectedNumberOfParameters with nothing else; otherwise args.get(j).try_into()? for j = 0..n-1 in order, "
             "all before the handler call whose operands they are. C03-N no Result of push/try_into/from_str_radix/parse "
             "is discarded; the argument vector's overflow is reported."
             " C03-PR: the contracts of the parser combinators the skeleton builds on are read from their bodies - satisfy (accept first byte iff pred / soft error / Incomplete on empty), take_while (never fails; longest prefix, position() form or counting-loop form), optional (never fails; Some(value) or input untouched), tag(b) = satisfy(== b). C03-C12I: the Incomplete discipline of the data recognisers (rule C12-I)."
             " C03-K: the buffer discipline of process (rules K1-K7 of C07) - the bytes of a message reach the parser as sent."
             " C03-C06R: every parse-error path of run reports once and resumes behind the message terminator, every execution-error path reports execute's error once (rule C06-R) - exactly one error per faulty unit."
             " C03-G also: a numeric recogniser rejects (other than Incomplete) only on a path where a sub-parser or fallible conversion failed."
             " C03-C09Q: every reported error is stored in the queue (push rule of C09).")

V = "microscpi::value::Value::"
E = "microscpi::error::Error::"
INTS = ["u8", "i8", "u16", "i16", "u32", "i32", "u64", "i64", "usize", "isize"]
RADIX = {"Decimal": 10, "Hexadecimal": 16, "Binary": 2, "Octal": 8}


def run(ck):
    ck.trust("rustc HIR/typeck (resolved inherent impls and generic arguments)", "factdump", "pathsum", "bytecls",
             "core::num::from_str_radix and str::parse::<f32/f64> are exact / correctly rounded")
    lib = ctx.lib(ck)
    if lib is None:
        return
    rule_V(ck, lib)
    rule_G(ck, lib)
    rule_N(ck, lib)
    rule_A(ck)
    # a literal that is only partly there (a block or string cut by a read boundary) is reported Incomplete, never
    # rejected or accepted short: byte-for-byte delivery under streaming (the rule of C12, necessary here as well)
    import c12
    with ck.under("C12-", "C03-C12"):
        c12.rule_I(ck, lib, skeleton.Skeleton(ck, lib))
    # ... and the bytes of a message reach the parser as they were sent, whatever the read boundaries: the buffer
    # discipline of process (K-rules of C07)
    import c07
    c07.rule_K(ck, lib, "C03-K")
    # "exactly one error is reported": every parse-error path of run reports once and resumes behind the message
    # terminator (not inside the faulty unit's literals), every execution-error path reports execute's error once (C06-R)
    import c06
    c06.rule_R(ck, lib, "C03-C06R")
    # ... and with the library's own error handling a report is a queue entry: none is dropped or merged (push rule of C09)
    import c09
    with ck.under("C09-", "C03-C09"):
        c09.rule_push(ck, lib, c09.storage_place(ck, lib))


def impl_fn(lib, self_ty, target):
    for b in lib.facts["bodies"]:
        tr = b.get("trait_ref", "")
        if b.get("trait") == "core::convert::TryInto" and b.get("name") == "try_into":
            m = re.match(r"<(.*) as core::convert::TryInto<(.*)>>$", tr)
            if m and strip_lt(m.group(1)) == self_ty and strip_lt(m.group(2)) == target:
                return b
    return None


def strip_lt(s):
    return re.sub(r"'\w+\s*", "", s).replace("<>", "").replace("&", "&").strip()


def arms_of(b):
    """-> list of (variants[(name, binding id | literal | None)], body expr), wildcard body"""
    v = hir.strip(b["value"])
    m = None
    for x in hir.walk(v):
        if x.get("k") == "Match" and x.get("src") == "Normal":
            m = x
            break
    if m is None:
        return None, None
    s = hir.strip(m["scrut"])
    if hir.local_id(s) is None:
        return None, None
    arms = []
    wild = None
    for a in m["arms"]:
        alts = []

        def collect(p):
            while p["k"] in ("Ref", "Deref"):
                p = p["pat"]
            if p["k"] == "Or":
                for q in p["pats"]:
                    collect(q)
            elif p["k"] == "TupleStruct" and p["res"].get("path", "").startswith(V) and len(p["pats"]) == 1:
                sub = p["pats"][0]
                name = p["res"]["path"][len(V):]

                def sublits(q):
                    while q["k"] in ("Ref", "Deref"):
                        q = q["pat"]
                    if q["k"] == "Or":
                        for r in q["pats"]:
                            sublits(r)
                    elif q["k"] == "Bind" and "sub" not in q:
                        alts.append((name, ("bind", q["id"])))
                    elif q["k"] == "Lit":
                        alts.append((name, ("lit", q["lit"]["v"])))
                    elif q["k"] == "Wild":
                        alts.append((name, ("any",)))
                    else:
                        alts.append((name, ("?", q["k"])))
                sublits(sub)
            elif p["k"] == "Wild" or (p["k"] == "Bind" and "sub" not in p):
                alts.append(("_", None))
            else:
                alts.append(("?", p["k"]))
        collect(a["pat"])
        if a.get("guard"):
            alts.append(("?", "guard"))
        if alts == [("_", None)]:
            wild = a["body"]
        else:
            arms.append((alts, a["body"]))
    return arms, wild


def err_ctor(e):
    """Err(Error::X) -> 'X'"""
    e = hir.strip(e)
    if e.get("k") == "Call" and (e.get("callee") or "").endswith("Result::Err") and len(e["args"]) == 1:
        a = hir.strip(e["args"][0])
        if a.get("k") == "Path" and a["res"].get("path", "").startswith(E):
            return a["res"]["path"][len(E):]
    return None


def conversion(body):
    """Classify an arm body: -> dict(kind, ...)"""
    b = hir.strip(body)
    casts = [x for x in hir.walk(b) if x.get("k") == "Cast"]
    d = {"casts": len(casts)}
    ec = err_ctor(b)
    if ec:
        d.update(kind="err", err=ec)
        return d
    if b.get("k") == "Call" and (b.get("callee") or "").endswith("Result::Ok") and len(b["args"]) == 1:
        a = hir.strip(b["args"][0])
        d.update(kind="ok", value=a)
        return d
    # conversion call with a failure mapping
    fail = None
    inner = b
    if b.get("k") == "MethodCall" and b["name"] in ("or", "map_err", "or_else"):
        inner = hir.strip(b["recv"])
        arg = hir.strip(b["args"][0])
        if b["name"] == "or":
            fail = err_ctor(arg)
        else:
            if arg.get("k") == "Closure":
                cb = hir.strip(arg["body"])
                if b["name"] == "map_err" and cb.get("k") == "Path" and cb["res"].get("path", "").startswith(E):
                    fail = cb["res"]["path"][len(E):]
                elif b["name"] == "or_else":
                    fail = err_ctor(cb)
    if inner.get("k") == "Call" and re.match(r"core::num::<impl (\w+)>::from_str_radix$", inner.get("callee") or ""):
        t = re.match(r"core::num::<impl (\w+)>::from_str_radix$", inner["callee"]).group(1)
        r = hir.strip(inner["args"][1])
        d.update(kind="radix", ty=t, radix=r["lit"]["v"] if r.get("k") == "Lit" else None, arg=hir.local_id(inner["args"][0]), fail=fail)
        return d
    if inner.get("k") == "MethodCall" and (inner.get("callee") or "").endswith("<impl str>::parse"):
        d.update(kind="parse", ty=(inner.get("gargs") or ["?"])[0], arg=hir.local_id(inner["recv"]), fail=fail)
        return d
    d.update(kind="?", text=hir.show(b)[:160])
    return d


def variant_of_self(x, ps):
    """-> (variant name or None, set of excluded variant names)"""
    pos = None
    neg = set()
    for c in x.conds:
        if c[0] == "is" and c[1] == ("param", "self") and c[2].startswith(V):
            if c[3]:
                pos = c[2][len(V):]
            else:
                neg.add(c[2][len(V):])
    return pos, neg


def has_cast(t):
    return any(isinstance(u, tuple) and u and u[0] == "cast" for u in pathsum.subterms(t))


def conv_paths(ck, lib, b):
    ex, ps = ctx.summarize(lib, b["def"], ck)
    return ex, ps


def judge_numeric_impl(ck, lib, b, t, table, callee_of, rid_prefix):
    """table: variant -> expected extra literal argument (radix) or None; callee_of(t) -> expected callee."""
    ex, ps = conv_paths(ck, lib, b)
    seen = {}
    for i, x in enumerate(ex):
        v, neg = variant_of_self(x, ps)
        calls = [e for e in x.effects if e[0] == "call"]
        val = x.value
        key = "%s:%s:%s" % (rid_prefix, t, v or "other")
        if v in table:
            want_callee = callee_of(t)
            data = ("payload", ("param", "self"), V + v, 0)
            conv = [e for e in calls if e[1] == want_callee]
            other = [e for e in calls if e[1] != want_callee]
            ok = len(conv) == 1 and not other and conv[0][2][0] == data and (table[v] is None or conv[0][2][1:] == (("lit", "int", table[v]),))
            why = ""
            if ok:
                ct = ("call",) + conv[0][1:]
                d = ps.decided(St(x.conds), ct, OK)
                if d is True:
                    ok = val == ("ctor", OK, (("payload", ct, OK, 0),)) and not has_cast(val)
                    why = "success delivers %s" % show_term(val)
                elif d is False:
                    ok = val == ("ctor", ERR, (("ctor", E + "NumericDataError", ()),))
                    why = "failure reported as %s" % show_term(val)
                else:
                    ok = val == ct and False
                    why = "the conversion's result is passed on unmapped"
            else:
                why = "calls %s" % [(e[1], [show_term(a) for a in e[2]]) for e in calls]
            seen.setdefault(v, []).append(ok)
            ck.judge(ok, "C03-V", key + "#%d" % i, "%s -> %s(text%s); Ok delivered as is, failure -> NumericDataError" % (v, want_callee.split("::", 2)[-1], ", %s" % table[v] if table[v] else ""),
                     "%s arm of TryInto<%s>: %s (expected exactly %s on the variant's own text%s, failure -> NumericDataError, no cast)" % (v, t, why, want_callee, " with radix %s" % table[v] if table[v] else ""),
                     data=pathsum.show_exit(x)[:800])
        else:
            ok = not calls and val == ("ctor", ERR, (("ctor", E + "DataTypeError", ()),))
            ck.judge(ok, "C03-V", key + "#%d" % i, "%s -> DataTypeError" % (v or "any other kind"),
                     "TryInto<%s> for %s: %s %s (expected Err(DataTypeError) and no conversion)" % (t, v or "the remaining kinds", [e[1] for e in calls], show_term(val)), data=pathsum.show_exit(x)[:800])
    ck.judge(set(seen) == set(table), "C03-V", "%s:%s:coverage" % (rid_prefix, t), "handles %s" % sorted(table), "TryInto<%s> converts %s, expected exactly %s" % (t, sorted(seen), sorted(table)))


def rule_V(ck, lib):
    n = 0
    # the ten integer types of the tree, and any wider one a later commit adds (judged by the same rule)
    more = [t for t in ("u128", "i128") if (impl_fn(lib, "&microscpi::value::Value<>", t) or impl_fn(lib, "&microscpi::value::Value", t)) is not None]
    for t in INTS + more:
        b = impl_fn(lib, "&microscpi::value::Value<>", t) or impl_fn(lib, "&microscpi::value::Value", t)
        if not ck.anchor("C03-V", "TryInto<%s> for &Value" % t, b):
            continue
        n += 1
        judge_numeric_impl(ck, lib, b, t, RADIX, lambda tt: "core::num::%s::from_str_radix" % tt, "int")
    ck.floor("C03-V", "integer conversion impls", n, 10)
    for t in ("f32", "f64"):
        b = impl_fn(lib, "&microscpi::value::Value<>", t) or impl_fn(lib, "&microscpi::value::Value", t)
        if not ck.anchor("C03-V", "TryInto<%s> for &Value" % t, b):
            continue
        judge_numeric_impl(ck, lib, b, t, {"Decimal": None}, lambda tt: "core::str::parse::<%s>" % tt, "float")
    # bool
    b = impl_fn(lib, "&microscpi::value::Value<>", "bool") or impl_fn(lib, "&microscpi::value::Value", "bool")
    if ck.anchor("C03-V", "TryInto<bool> for &Value", b):
        ex, ps = conv_paths(ck, lib, b)
        table = {}
        bad = []
        default_ok = None
        for x in ex:
            v, neg = variant_of_self(x, ps)
            lits = [c for c in x.conds if c[0] == "eq" and c[3] and c[1][0] == "payload" and c[1][1] == ("param", "self") and c[2][0] == "lit"]
            val = x.value
            if val[0] == "ctor" and val[1] == OK and val[2][0][0] == "lit" and val[2][0][1] == "bool":
                if v and len(lits) == 1 and not x.calls():
                    table[(v, lits[0][2][2])] = val[2][0][2]
                else:
                    bad.append(pathsum.show_exit(x)[:200])
            elif val == ("ctor", ERR, (("ctor", E + "IllegalParameterValue", ()),)):
                default_ok = True if default_ok is None else default_ok
            else:
                default_ok = False
                bad.append(pathsum.show_exit(x)[:200])
        need = {("Characters", "ON"): True, ("Decimal", "1"): True, ("Characters", "OFF"): False, ("Decimal", "0"): False}
        truthy = {"ON", "1", "TRUE", "YES"}
        falsy = {"OFF", "0", "FALSE", "NO"}
        wrong = [(k, v_) for k, v_ in table.items() if (str(k[1]).upper() in truthy and v_ is False) or (str(k[1]).upper() in falsy and v_ is True) or str(k[1]).upper() not in truthy | falsy]
        ok = all(table.get(k) == v_ for k, v_ in need.items()) and not wrong and not bad
        ck.judge(ok, "C03-V", "bool:table", "bool literals: %s" % sorted((k[1], v_) for k, v_ in table.items()),
                 "bool literal table %s: missing %s, on the wrong side / unknown %s, other paths %s" % (sorted((k, v_) for k, v_ in table.items()), [k for k, v_ in need.items() if table.get(k) != v_], wrong, bad[:2]))
        ck.judge(default_ok is True, "C03-V", "bool:default", "anything else -> IllegalParameterValue", "a non-boolean literal does not end in Err(IllegalParameterValue)")
    # &str / &[u8]
    for t, want in (("&str", "String"), ("&[u8]", "Arbitrary")):
        b = impl_fn(lib, "&microscpi::value::Value<>", t) or impl_fn(lib, "&microscpi::value::Value", t)
        if not ck.anchor("C03-V", "TryInto<%s> for &Value" % t, b):
            continue
        ex, ps = conv_paths(ck, lib, b)
        got = set()
        for i, x in enumerate(ex):
            v, neg = variant_of_self(x, ps)
            if x.value[0] == "ctor" and x.value[1] == OK:
                okp = v == want and x.value == ("ctor", OK, (("payload", ("param", "self"), V + want, 0),)) and not x.calls()
                got.add(v)
                ck.judge(okp, "C03-V", "ref:%s:%s#%d" % (t, v, i), "%s delivered as the payload itself" % want, "TryInto<%s> delivers %s for %s" % (t, show_term(x.value), v), data=pathsum.show_exit(x)[:400])
            else:
                ck.judge(x.value == ("ctor", ERR, (("ctor", E + "DataTypeError", ()),)) and v != want, "C03-V", "ref:%s:other#%d" % (t, i), "other kinds -> DataTypeError",
                         "TryInto<%s> answers %s for %s" % (t, show_term(x.value), v or "other kinds"))
        ck.judge(got == {want}, "C03-V", "ref:%s:accepts" % t, "%s accepts only %s" % (t, want), "TryInto<%s> accepts %s" % (t, sorted(got)))
    # any further target type (a conversion added later): one kind of data accepted, delivered as the literal's own text or
    # bytes - bare or wrapped in a constructor -, everything else a data type error; nothing computed from it
    known = set(INTS) | {"u128", "i128", "f32", "f64", "bool", "&str", "&[u8]"}
    for b in lib.facts["bodies"]:
        m = re.match(r"<&(?:'\w+ )?microscpi::value::Value<.*> as core::convert::TryInto<(.*)>>$", b.get("trait_ref", ""))
        if not (b.get("trait") == "core::convert::TryInto" and m) or strip_lt(m.group(1)) in known:
            continue
        t = strip_lt(m.group(1))
        ex, ps = conv_paths(ck, lib, b)
        got = set()
        for i, x in enumerate(ex):
            v, neg = variant_of_self(x, ps)
            if x.value[0] == "ctor" and x.value[1] == OK:
                pl = x.value[2][0] if len(x.value[2]) == 1 else None
                while pl is not None and pl[0] == "ctor" and len(pl[2]) == 1:
                    pl = pl[2][0]
                okp = v is not None and pl == ("payload", ("param", "self"), V + v, 0) and not x.calls()
                got.add(v)
                ck.judge(okp, "C03-V", "ref:%s:%s#%d" % (t, v, i), "%s delivered as the payload itself" % v, "TryInto<%s> delivers %s for %s" % (t, show_term(x.value), v), data=pathsum.show_exit(x)[:400])
            else:
                ck.judge(x.value == ("ctor", ERR, (("ctor", E + "DataTypeError", ()),)), "C03-V", "ref:%s:other#%d" % (t, i), "other kinds -> DataTypeError",
                         "TryInto<%s> answers %s for %s" % (t, show_term(x.value), v or "other kinds"))
        ck.judge(len(got) == 1 and None not in got, "C03-V", "ref:%s:accepts" % t, "%s accepts only %s" % (t, sorted(got)), "TryInto<%s> accepts %s" % (t, sorted(map(str, got))))
    # by-value impls delegate to the by-reference impl of the same target
    n = 0
    for b in lib.facts["bodies"]:
        tr = b.get("trait_ref", "")
        m = re.match(r"<microscpi::value::Value<.*> as core::convert::TryInto<(.*)>>$", tr)
        if b.get("trait") == "core::convert::TryInto" and m:
            n += 1
            v = hir.strip(b["value"])
            ok = v.get("k") == "MethodCall" and v["name"] == "try_into" and hir.local_id(v["recv"]) is not None and (v.get("resolved") or "").startswith("<&microscpi::value::Value") \
                and strip_lt(generic_arg((v.get("resolved") or ""), "TryInto<")) == strip_lt(m.group(1))
            ck.judge(ok, "C03-V", "by-value:%s" % strip_lt(m.group(1)), "delegates to the by-reference impl", "by-value TryInto<%s> is %s" % (m.group(1), hir.show(v)[:120]))
    ck.floor("C03-V", "by-value conversion impls", n, 14)


def generic_arg(text, opener):
    """the text between `opener` (which ends in '<') and its matching '>'"""
    i = text.rfind(opener)
    if i < 0:
        return ""
    i += len(opener)
    depth = 1
    for j in range(i, len(text)):
        if text[j] == "<":
            depth += 1
        elif text[j] == ">":
            depth -= 1
            if depth == 0:
                return text[i:j]
    return text[i:]


def first_bytes(sk, pid, depth=0):
    """Bytes that can start something the parser accepts (read off its language); None when not computable."""
    lang = sk.language(pid)
    if lang is None:
        # not a regular language (a data-driven slice, a loop): the first strict consumer of its accepting paths
        f = sk.fns.get(pid[1]) if pid and pid[0] in ("fn", "factory") else None
        if f is None or depth > 4:
            return None
        out = set()
        for x in f["exits"]:
            r = sk.exit_result(x)
            if not (r and r[0][0] == "ok"):
                continue
            ch = sk.chain(sk.rem_of(r[0][1]), f["inp"], x, f["ps"])
            if not ch or len(ch[0]) < 2 or not ch[0][1]:
                return None
            c0 = ch[0][1]
            if c0[0] in ("tag",) and c0[1] is not None:
                out.add(c0[1])
            elif c0[0] == "satisfy" and c0[1] is not None:
                out |= set(c0[1])
            else:
                sub = first_bytes(sk, c0, depth + 1) if c0[0] in ("fn", "factory") else None
                if sub is None:
                    return None
                out |= sub
        return out
    out = set()
    for seq in lang:
        for tok in seq:
            out |= set(tok[1])
            if tok[0] == "one":
                break
    return out


def rule_DISPATCH(ck, lib, sk, rid="C03-G"):
    """Where the parameter parser chooses a recogniser by looking at the first byte(s) of the literal instead of trying the
    recognisers in turn, the choice must be complete: every byte that can start a literal a recogniser accepts leads to a
    path on which that recogniser is applied. (A dispatch that forgets `+` never tries the decimal recogniser on `+5`.)
    The bytes a path is feasible for are over-approximated from its conditions on input[0] (unknown conditions restrict
    nothing), the first bytes of a recogniser are read off its language."""
    import bytecls
    fn = "microscpi::parser::argument"
    f = sk.fns.get(fn)
    if f is None:
        return
    S = pathsum.strip_sites
    inp = S(f["inp"])

    def first_of(t):
        t = S(t)
        return t[0] == "index" and S(t[1]) == inp and t[2] == ("lit", "int", 0)
    reach = {}
    constrained = False
    for x in f["exits"]:
        feas = set(range(256))
        for c in x.conds:
            c = S(c)
            if c[0] == "eq" and first_of(c[1]) and c[2][0] == "lit" and isinstance(c[2][2], int):
                feas &= ({c[2][2]} if c[3] else set(range(256)) - {c[2][2]})
                constrained = True
            elif c[0] == "is" and c[2] == OK and c[1][0] == "apply" and c[1][1][0] == "call" and c[1][1][1].endswith("::tag") and len(c[1][2]) == 1 and S(c[1][2][0]) == inp \
                    and c[1][1][2] and c[1][1][2][0][0] == "lit" and isinstance(c[1][1][2][0][2], int):
                b = c[1][1][2][0][2]
                feas &= ({b} if c[3] else set(range(256)) - {b})
                constrained = True
            elif c[0] == "true" and c[1][0] == "bin" and c[1][1] in ("Eq", "Ne", "Lt", "Le", "Gt", "Ge") and \
                    ((first_of(c[1][2]) and c[1][3][0] == "lit" and isinstance(c[1][3][2], int)) or (first_of(c[1][3]) and c[1][2][0] == "lit" and isinstance(c[1][2][2], int))):
                import operator
                opf = {"Eq": operator.eq, "Ne": operator.ne, "Lt": operator.lt, "Le": operator.le, "Gt": operator.gt, "Ge": operator.ge}[c[1][1]]
                if first_of(c[1][2]):
                    feas &= {b for b in range(256) if opf(b, c[1][3][2]) == bool(c[2])}
                else:
                    feas &= {b for b in range(256) if opf(c[1][2][2], b) == bool(c[2])}
                constrained = True
            elif c[0] == "true" and c[1][0] == "call" and c[1][1].split("::")[-1] in bytecls.ASCII_TABLE and len(c[1][2]) == 1 and first_of(c[1][2][0]):
                tab = bytecls.ASCII_TABLE[c[1][1].split("::")[-1]]
                feas &= {b for b in range(256) if bool(tab(b)) == bool(c[2])}
                constrained = True
        for (pid, inp_, t, oc) in sk.apps_on_path(x, f["ps"]):
            if pid and pid[0] in ("fn", "factory") and S(inp_) == inp:
                reach.setdefault(pid, set()).update(feas)
    n = 0
    for pid, feas in sorted(reach.items(), key=str):
        fb = first_bytes(sk, pid)
        name = pid[1].split("::")[-1]
        if fb is None:
            ck.ok(rid, "argument:dispatch:%s" % name, "first bytes of %s not computable: not judged" % name, trivial=True)
            continue
        n += 1
        missing = sorted(set(fb) - feas)
        ck.judge(not missing, rid, "argument:dispatch:%s" % name,
                 "%s is tried for every byte that can start a literal it accepts (%d first bytes%s)" % (name, len(fb), "" if constrained else "; alternatives are tried in turn, no dispatch on the first byte"),
                 "%s is never tried for a literal that starts with %s, although it accepts such literals: they are rejected without the recogniser having been asked"
                 % (name, ", ".join(repr(chr(b)) for b in missing[:8])))
    ck.floor(rid, "data recognisers applied by the parameter parser with computable first bytes", n, 5)


def reject_by_grammar(ck, sk, rid, kinds_wanted, what, who, floor):
    """Every rejecting exit (other than Incomplete) of a recogniser that builds one of `kinds_wanted` lies on a path where a
    sub-parser or a fallible conversion failed - never behind a test of the recogniser's own on the recognised bytes."""
    n_rej = 0
    for path, f in sorted(sk.fns.items()):
        if f["kind"] != "direct":
            continue
        builds = set()
        for x in f["exits"]:
            r = sk.exit_result(x)
            if r and r[0][0] == "ok":
                v = sk.val_of(r[0][1])
                if v[0] == "ctor" and v[1].startswith(V):
                    builds.add(v[1][len(V):])
        if not (builds & kinds_wanted):
            continue
        for i, x in enumerate(f["exits"]):
            r = sk.exit_result(x)
            if not (r and r[0][0] == "err"):
                continue
            kinds = sk.err_kinds(r[0][1], x, f["ps"])
            if kinds <= {"incomplete"}:
                continue
            n_rej += 1
            failed = any(oc is False for (_, _, _, oc) in sk.apps_on_path(x, f["ps"])) or \
                any(c[0] == "is" and c[2] in (OK, SOME) and c[3] is False for c in x.conds)
            ck.judge(failed, rid, "%s:reject#%d:by-grammar" % (path.split("::")[-1], i), "rejects where a sub-parser or conversion failed",
                     "%s rejects a %s that all its sub-parsers accepted (a test of its own on the recognised text: %s)"
                     % (path.split("::")[-1], what, [pathsum.show_term(pathsum.strip_sites(c[1]))[:80] for c in x.conds if c[0] == "true"][-2:]), data=pathsum.show_exit(x)[:1200])
    ck.floor(rid, "rejecting exits of the %s" % who, n_rej, floor)


def rule_G(ck, lib):
    sk = skeleton.Skeleton(ck, lib)
    rule_DISPATCH(ck, lib, sk, "C03-G")
    # the meaning of the parser combinators the skeleton is built from, read from their own bodies
    import primitives
    primitives.check(ck, lib, sk, "C03-PR")
    HEX = frozenset(b"0123456789abcdefABCDEF")
    want = {"Hexadecimal": (frozenset(b"Hh"), HEX), "Binary": (frozenset(b"Bb"), frozenset(b"01")), "Octal": (frozenset(b"Qq"), frozenset(b"01234567"))}
    alnum = frozenset(b"0123456789abcdefghijklmnopqrstuvwxyzABCDEFGHIJKLMNOPQRSTUVWXYZ")
    found = set()
    dec_done = set()
    # a numeric recogniser rejects only where its grammar does: every rejecting exit (other than Incomplete) lies on a path
    # where a sub-parser or a fallible conversion failed - never behind a literal recognised in full (a cap on the number
    # of digits or on the exponent refuses well-formed literals whose value is representable)
    reject_by_grammar(ck, sk, "C03-G", {"Decimal", "Hexadecimal", "Binary", "Octal"}, "literal", "numeric recognisers", 4)
    for path, f in sorted(sk.fns.items()):
        if f["kind"] != "direct":
            continue
        ps = f["ps"]
        for x in f["exits"]:
            r = sk.exit_result(x)
            if not (r and r[0][0] == "ok"):
                continue
            v = sk.val_of(r[0][1])
            if not (v[0] == "ctor" and v[1].startswith(V)):
                continue
            kind = v[1][len(V):]
            name = path.split("::")[-1]
            apps = sk.apps_on_path(x, ps)
            rem = sk.rem_of(r[0][1])
            if kind in want:
                found.add(kind)
                shape = [a[0][0] for a in apps]
                if not ck.judge(shape == ["tag", "satisfy", "satisfy", "take_while"] and apps[0][0][1] == 35, "C03-G", "%s:shape" % name, "'#' letter digit digit*", "recogniser shape is %s" % [pid_name(a[0]) for a in apps]):
                    continue
                letters, digits = want[kind]
                ck.judge(apps[1][0][1] == letters, "C03-G", "%s:letter" % name, "letter class %s -> Value::%s" % (bytecls.show_set(apps[1][0][1]), kind),
                         "radix letter class %s yields Value::%s (expected %s)" % (bytecls.show_set(apps[1][0][1]), kind, bytecls.show_set(letters)))
                d1, d2 = apps[2][0][1], apps[3][0][1]
                ck.judge(d1 is not None and d1 == d2 and digits <= d1 <= alnum, "C03-G", "%s:digits" % name, "digit class %s covers radix %d" % (bytecls.show_set(d1), RADIX[kind]),
                         "digit classes of %s: first %s, rest %s; both must be equal and contain all radix-%d digits" % (kind, bytecls.show_set(d1), bytecls.show_set(d2), RADIX[kind]))
                # text = from_utf8(i2[..len(i2) - len(rem)]) with i2 the remainder after the letter
                i2 = ("tproj", ("payload", apps[1][2], OK, 0), 0)
                ok = span_of(v[2][0], i2, rem, sk, f, x)
                ck.judge(ok, "C03-G", "%s:span" % name, "text = bytes after the letter up to the remainder", "Value::%s carries %s, not the span after the radix letter" % (kind, show_term(v[2][0])))
            elif kind == "Decimal":
                found.add(kind)
                ok = span_of(v[2][0], f["inp"], rem, sk, f, x)
                ck.judge(ok, "C03-G", "%s:span" % name, "Decimal text = exactly the consumed span", "Value::Decimal carries %s, not the consumed span" % show_term(v[2][0]))
                # the decimal grammar, as the language of consumed token sequences (sub-parsers expanded, whatever their names)
                if name not in dec_done:
                    dec_done.add(name)
                    got = sk.language(("fn", path))
                    D = frozenset(range(48, 58))
                    S_, DOT, E_ = ("one", frozenset([43, 45])), ("one", frozenset([46])), ("one", frozenset([69, 101]))
                    DIGS = (("one", D), ("many", D))
                    mant = set()
                    for sg in ((), (S_,)):
                        mant |= {sg + DIGS, sg + DIGS + (DOT,), sg + DIGS + (DOT,) + DIGS, sg + (DOT,) + DIGS}
                    expo = {(E_,) + sg + DIGS for sg in ((), (S_,))}
                    spec = {m + e for m in mant for e in ({()} | expo)}

                    def shw(q):
                        return " ".join(("%s%s" % (bytecls.show_set(t[1]), "*" if t[0] == "many" else "")) for t in q) or "(nothing)"
                    def expand(lang):
                        """a one-byte token over a small class is the alternation of its bytes (`sign` may be written as
                        one class or as two tags)"""
                        out = set()
                        for q in lang:
                            alts = [()]
                            for t in q:
                                if t[0] == "one" and len(t[1]) <= 4:
                                    alts = [a + (("one", frozenset([b])),) for a in alts for b in sorted(t[1])]
                                else:
                                    alts = [a + (t,) for a in alts]
                            out.update(alts)
                        return out
                    spec = expand(spec)
                    got = expand(got) if got is not None else None
                    ok = got is not None and got == spec
                    ck.judge(ok, "C03-G", "%s:grammar" % name, "consumes exactly sign? (digits ('.' digits?)? | '.' digits) ([Ee] sign? digits)?  (%d token sequences)" % len(spec),
                             "decimal recogniser consumes a different language: %s" % ("not computable (loop / data-driven slice / unknown parser on an accepting path)" if got is None else
                                                                                       "extra %s; missing %s" % ([shw(q) for q in sorted(got - spec, key=str)][:3], [shw(q) for q in sorted(spec - got, key=str)][:3])))
            elif kind == "Characters":
                found.add(kind)
                taken = None
                if apps and apps[0][0] == ("fn", P + "program_mnemonic"):
                    taken = ("tproj", ("payload", apps[0][2], OK, 0), 1)
                a = v[2][0]
                ok = a[0] == "payload" and a[2] == OK and a[1][0] == "call" and a[1][1].endswith("from_utf8") and a[1][2][0] == taken
                ck.judge(ok, "C03-G", "%s:span" % name, "Characters = the mnemonic text", "Value::Characters carries %s" % show_term(a))
    ck.judge(found >= {"Hexadecimal", "Binary", "Octal", "Decimal", "Characters"}, "C03-G", "recognisers:found", "recognisers found for %s" % sorted(found), "missing recognisers: found only %s" % sorted(found))
    # argument() reaches a recogniser for every kind of program data (through helper parsers, if any), each applied to the
    # argument's own input
    f = sk.fns.get(P + "argument")
    if ck.anchor("C03-G", P + "argument", f):
        kinds = set()
        quotes = set()
        seen = set()

        def visit(path, inp_ok=True):
            if path in seen or path not in sk.fns:
                return
            seen.add(path)
            g = sk.fns[path]
            own = set()
            for x in g["exits"]:
                r = sk.exit_result(x)
                if r and r[0][0] == "ok":
                    v = sk.val_of(r[0][1])
                    if v[0] == "ctor" and v[1].startswith(V):
                        own.add(v[1][len(V):])
                        if v[1] == V + "String":
                            for (pid, _, _, _) in sk.apps_on_path(x, g["ps"]):
                                if pid[0] == "tag":
                                    quotes.add(pid[1])
            if own:
                kinds.update(own)
                return
            for x in g["exits"]:
                for (pid, inp, t, oc) in sk.apps_on_path(x, g["ps"]):
                    if pid[0] == "fn":
                        if inp != g["inp"]:
                            ck.bad("C03-G", "argument:same-input:%s" % pid_name(pid), "alternative %s is applied to %s, not to the argument's own input" % (pid_name(pid), show_term(inp)))
                        visit(pid[1])
        visit(P + "argument")
        want = {"Characters", "Decimal", "Hexadecimal", "Binary", "Octal", "String", "Arbitrary"}
        ck.judge(kinds >= want and quotes >= {34, 39}, "C03-G", "argument:kinds", "argument() reaches recognisers for %s (quotes %s)" % (sorted(kinds), sorted(quotes)),
                 "argument() does not reach a recogniser for %s / quote characters %s" % (sorted(want - kinds), sorted({34, 39} - quotes)))


def span_of(arg, base, rem, sk=None, f=None, x=None):
    """arg == from_utf8(base[..len(base) - len(rem)])? (Ok payload) - i.e. the text is exactly what was consumed between
    `base` and the remainder `rem`. The slice may be written with any bound that the slice-length facts of the path prove
    equal to len(base) - len(rem) (`base[..more.len() + 1]`, `base.split_at(k).0`, ...)."""
    if not (arg[0] == "payload" and arg[2] == OK and arg[1][0] == "call" and arg[1][1].endswith("from_utf8")):
        return False
    s = strip_sites(arg[1][2][0])
    base, rem = strip_sites(base), strip_sites(rem)
    end = None
    if s[0] == "index" and s[1] == base and s[2][0] == "struct":
        fd = dict(s[2][2])
        if s[2][1].endswith("RangeTo") or (s[2][1].endswith("::Range") and fd.get("start") == ("lit", "int", 0)):
            end = fd.get("end")
    elif s[0] == "tproj" and s[2] == 0 and s[1][0] == "call" and s[1][1].endswith("::split_at") and len(s[1][2]) == 2 and s[1][2][0] == base:
        end = s[1][2][1]
    if end is None:
        return False
    if end == ("bin", "Sub", ("call", "core::slice::len", (base,)), ("call", "core::slice::len", (rem,))):
        return True
    if sk is None or f is None or x is None:
        return False
    import fm
    import slicelin
    sl = slicelin.SliceLin(sk, f["ps"], f.get("inp"))
    facts = sl.premises(x) + sl.cond_facts(x) + sl.slice_facts(rem, x) + sl.slice_facts(base, x) + [fm.ge0(sl.ln(rem)), fm.ge0(sl.ln(base))]
    return all(fm.entails(facts, g) for g in fm.eq(sl.L(end) + sl.ln(rem), sl.ln(base)))


def discarded_results(body, names=("push", "try_into", "from_str_radix", "parse", "extend_from_slice", "write_response")):
    """Calls returning Result/Option whose value is dropped: statement position, `let _ =`, `.ok()` in statement position."""
    out = []
    pm = ctx.parent_map(body)
    for x in hir.walk(body):
        if x.get("k") == "Block":
            for s in x["stmts"]:
                e = None
                if s["k"] == "Semi":
                    e = s["e"]
                elif s["k"] == "Let" and s["pat"]["k"] == "Wild" and "init" in s:
                    e = s["init"]
                if e is None:
                    continue
                e = hir.strip(e)
                if e.get("k") == "MethodCall" and e["name"] in ("ok", "err", "is_ok", "is_err", "unwrap_or_default"):
                    e = hir.strip(e["recv"])
                if e.get("k") == "Await":
                    e = hir.strip(e["e"])
                if e.get("k") in ("Call", "MethodCall") and (e.get("ty", "").startswith("core::result::Result<") or "impl core::future::Future" in e.get("ty", "") or "{async" in e.get("ty", "")):
                    nm = (e.get("callee") or "").split("::")[-1]
                    if nm in names:
                        out.append((nm, hir.loc(e), hir.show(e)[:120]))
    return out


def rule_N(ck, lib):
    n = 0
    for b in lib.facts["bodies"]:
        if b["def"].startswith(("microscpi::parser::", "microscpi::value::", "<&microscpi::value::", "<microscpi::value::")):
            n += 1
            for (nm, where, txt) in discarded_results(b["value"]):
                ck.bad("C03-N", "discarded:%s:%s" % (b["def"].split("::")[-1], nm), "the result of `%s` is discarded" % txt, where)
    ck.ok("C03-N", "no-discarded-results", "no Result of push/try_into/from_str_radix/parse is dropped in %d parser/value bodies" % n)
    ck.floor("C03-N", "parser/value bodies scanned", n, 50)
    # every push into the argument vector has its result decided on every path
    ex, ps = ctx.summarize(lib, P + "arguments", ck, closure=True)
    if ck.anchor("C03-N", P + "arguments", ex):
        sites = {}
        for x in ex:
            for e in x.effects:
                if e[0] == "call" and e[1].endswith("::push"):
                    t = ("call",) + e[1:]
                    d = ps.decided(St(x.conds), t, OK)
                    sites.setdefault(e[3], []).append((d, x))
        for site, lst in sorted(sites.items()):
            und = [x for d, x in lst if d is None]
            fails = [x for d, x in lst if d is False]
            okf = all(x.kind in ("err", "panic") or (x.kind == "return" and x.value is not None and x.value[0] == "ctor" and x.value[1] == ERR) for x in fails) and fails
            ck.judge(not und and okf, "C03-N", "arguments:push@%s" % site.split(":")[-1], "overflow of the argument vector ends the parse (error or discharged unwrap)",
                     "a failed push (more than MAX_ARGS parameters) is ignored: %s" % ([pathsum.show_exit(x)[:200] for x in und + fails][:1]), site)
        ck.floor("C03-N", "push sites in arguments()", len(sites), 2)


def rule_A(ck, A="C03-A", N="C03-N"):
    if getattr(ck, "cfg_rerun", False):
        return      # witness interfaces are compiled against the default configuration only
    count = 400 if ck.tier == "thorough" else 40
    fs, specs, failures = witness.build(ck, ck.seed, count)
    wit = fs.crate("wit.rlib")
    if fs.rc != 0 or wit is None:
        ck.bad(A, "witness:build", "witness interfaces do not build: %s" % [m for _, m in failures][:1])
        return
    enums = ctx.enums_of(wit)
    n = 0
    for spec in specs:
        it = witness.Iface(wit, spec)
        arms = witness.Arms(it, enums)
        if not arms.ok:
            ck.bad(A, "witness:%s:execute_command" % spec["mod"], "no generated dispatcher")
            continue
        decls = witness.S.full_decls(spec)
        argsp = ("param", arms.params[2])
        if it.exec_fn is not None:
            for (nm, where, txt) in discarded_results(it.exec_fn["value"]):
                ck.bad(N, "witness:%s:discarded:%s" % (spec["mod"], nm), "generated dispatcher discards the result of `%s`" % txt, where)
        for k, xs in sorted(arms.by_arm.items()):
            if k >= len(decls):
                continue
            want_n = len(decls[k]["params"])
            n += 1
            probs = []
            saw_mismatch = saw_call = False
            for x in xs:
                aa = arms.arity_atom(x)
                hc = arms.handler_calls(x)
                if aa is None:
                    probs.append("path without an arity test: %s" % pathsum.show_exit(x)[:160])
                    continue
                op, nlit, val = aa
                mismatch = val if op == "Ne" else (not val if op == "Eq" else None)
                if op not in ("Ne", "Eq") or nlit != want_n:
                    probs.append("arity guard is `args.len() %s %s`, the handler declares %d parameters" % (op, nlit, want_n))
                    continue
                if mismatch:
                    saw_mismatch = True
                    calls = [e for e in x.effects if e[0] == "call" and not e[1].endswith("::len")]
                    if calls or not (x.kind in ("return", "err") and x.value == ("ctor", ERR, (("ctor", witness.UNPARAM, ()),))):
                        probs.append("wrong parameter count does not simply return UnexpectedNumberOfParameters: %s" % pathsum.show_exit(x)[:200])
                    continue
                # arity ok: conversions in order
                convs = []
                for e in x.effects:
                    if e[0] == "call" and e[1].endswith("::try_into"):
                        convs.append(e)
                for j, e in enumerate(convs):
                    src = e[2][0]
                    while src[0] in ("ref", "deref") and len(src) == 2:
                        src = src[1]
                    okj = (src[0] == "payload" and src[2] == SOME and src[1][0] == "call" and src[1][1].endswith("::get") and src[1][2] == (argsp, ("lit", "int", j))) \
                        or (src[0] == "index" and pathsum.strip_sites(src)[1:3] == (argsp, ("lit", "int", j)))     # `&args[j]`, behind the count check
                    if not okj:
                        probs.append("conversion #%d reads %s instead of args.get(%d)" % (j, show_term(src), j))
                if hc:
                    saw_call = True
                    h = hc[0]
                    idx_h = x.effects.index(h)
                    hargs = h[2][1:]
                    wantargs = tuple(("payload", ("call",) + c[1:], OK, 0) for c in convs)
                    if len(convs) != want_n or hargs != wantargs:
                        probs.append("handler operands are %s; expected the %d converted arguments in order" % ([show_term(a) for a in hargs], want_n))
                    if any(x.effects.index(c) > idx_h for c in convs):
                        probs.append("a conversion happens after the handler call")
                else:
                    # no handler call: must be a failed conversion (or the get/unwrap panic edge judged by C05)
                    if x.kind == "err":
                        last = convs[-1] if convs else None
                        if last is None or x.value != ("ctor", ERR, (("payload", ("call",) + last[1:], ERR, 0),)):
                            probs.append("handler skipped for a reason other than a failed conversion: %s" % show_term(x.value))
            if not saw_mismatch:
                probs.append("no path refuses a wrong parameter count")
            if not saw_call:
                probs.append("no path calls the handler")
            ck.judge(not probs, A, "witness:%s:arm%d" % (spec["mod"], k), "arity %d guarded; args.get(j).try_into()? in order before the call" % want_n,
                     "; ".join(sorted(set(probs))[:3]))
    ck.floor(A, "generated dispatcher arms", n, 150)
