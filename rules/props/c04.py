"""C04 - responses are complete, well-formed and decode to the returned value."""
import ctx
import fmtdec
import hir
import pathsum
import witness
from pathsum import ERR, OK, SOME, St, show_term, strip_sites

RERUN_ON_CONFIGS = ("dfm", "std")
LEVEL = "other"
RULE_TEXT = ("C04-W receiver-ops: on no path, the failing ones included, does a method of a shipped Write impl apply anything to the writer itself but appending or read-only operations. C04-F format tables of every Response impl, read from path summaries with decoded format templates: integers "
             "are siblings writing `{}` of self; bool '1'/'0'; Characters the payload; floats share the decision table "
             "nan -> 9.91E+37, +inf -> 9.9E+37, -inf -> -9.9E+37, finite -> `{}`; Arbitrary `#<digits><len>` + raw bytes "
             "(`#10` when empty); tuples and lists write their elements in order with ',' between; Error -> (number, text). "
             "C04-Q string types share one routine that writes '\"', the payload only as segments of a split at '\"' with "
             "'\"\"' between consecutive segments, then '\"'. C04-X execute appends '\\n' and flush only after a successful "
             "query, in that order, `?`-propagated. C04-A (witness interfaces) each generated arm writes the handler's Ok "
             "value once and propagates the result. C04-W writer methods are called only from Response impls, their helper, "
             "execute and generated arms; write_char only gets ASCII literals; shipped Write impls append or fail."
             " C04-K: the buffer discipline of process (rules K1-K7 of C07) - a unit is handed to run once."
             " C04-W (write_fmt): the formatted pieces go to the writer itself or through alloc's growable `format`; no intermediate container with a capacity of its own lies between the value and the writer."
             " C04-T/D: an undefined header selects no handler - trie language and dispatcher arms of the witness interfaces (rules C01-T/D)."
             " C04-C01W: an unknown mnemonic leaves the header parser with UndefinedHeader (walk rule C01-W).")

W = "microscpi::response::Write::"
WR = "microscpi::response::Response::write_response"
INTS = ["i8", "u8", "i16", "u16", "i32", "u32", "i64", "u64", "isize", "usize"]
SELF = ("param", "self")


def is_wr(name):
    return name == WR or (name.endswith(">::write_response") and " as microscpi::response::Response" in name)


def w_method(name):
    """writer method name of a call path: the trait method or its resolved impl (`<T as ..::Write>::m`), else None"""
    if name.startswith(W):
        return name[len(W):]
    if " as microscpi::response::Write>::" in name:
        return name.split(">::")[-1]
    return None


def from_self(t):
    """t is `self` seen through borrowing views only (as_str, as_slice, as_ref, deref, as_bytes ...)."""
    t = strip_sites(t)
    while t[0] == "call" and t[1].split("::")[-1] in ("as_str", "as_slice", "as_ref", "deref", "borrow", "as_bytes", "as_mut_slice") and len(t[2]) == 1:
        t = t[2][0]
    return t == SELF


def resp(ty):
    return "<%s as microscpi::response::Response>::write_response" % ty


def trace(x):
    """writer operations on a path, in order: (op, data term, site)"""
    out = []
    for e in x.effects:
        if e[0] == "call" and e[1].startswith(W):
            out.append((e[1][len(W):], e[2][1] if len(e[2]) > 1 else None, e[3]))
        elif e[0] == "call" and is_wr(e[1]):
            out.append(("write_response", e[2][0], e[3]))
    return out


def success(x):
    return x.kind == "return" and not (x.value[0] == "ctor" and x.value[1] == ERR)


def run(ck):
    ck.trust("rustc HIR/typeck", "factdump", "pathsum", "core::fmt Display output of integers/floats/str (decodes to the same value)")
    ck.assume("the writer has room for the response (statement)", "user Write implementations append what they are given")
    lib = ctx.lib(ck)
    if lib is None:
        return
    rule_F(ck, lib)
    rule_Q(ck, lib)
    rule_X(ck, lib)
    rule_W(ck, lib)
    rule_A(ck)
    # C04-P: through process every message's response is written, flushed and cleared before the next message is
    # run, so each response is complete on its own whatever else arrived in the same read
    import c10
    pex, pps = ctx.summarize(lib, "microscpi::interface::Interface::process", ck)
    if ck.anchor("C04-P", "Interface::process", pex):
        rid = c10.identify_res_buf(pex)
        if ck.judge(rid is not None, "C04-P", "process:res_buf", "response buffer identified", "cannot identify the response buffer"):
            c10.response_typestate(ck, pex, rid, "C04-P")
    # exactly one response per query: a unit is handed to run once (the offsets of process never move back over
    # executed units) - the buffer discipline of process, as decided for C07
    import c07
    c07.rule_K(ck, lib, "C04-K")
    # "undefined headers produce no output": a header that no declaration spells selects no handler - the emitted trie
    # accepts exactly the declared spellings (rules C01-T/D on the witness interfaces)
    import c01
    c01.rule_T(ck, T="C04-T", D="C04-D")
    # ... and at run time a mnemonic that the node in force does not have ends the header parser with UndefinedHeader (no
    # second look from the root): the walk rule of C01
    with ck.under("C01-", "C04-C01"):
        c01.rule_W(ck, lib)
    # a response is written only for a query bound to a query handler: execute picks the slot by the query flag and refuses
    # an empty slot (the rule of C01, necessary here as well)
    import c01
    with ck.under("C01-", "C04-C01"):
        c01.rule_X(ck, lib)
    if ck.tier == "thorough" and not ck.cfg_rerun:
        std = ctx.lib(ck, "std")
        if std is not None:
            rule_Q(ck, std, tag="std:")
            rule_W(ck, std, tag="std:")


def summ(ck, lib, path, rid):
    ex, ps = ctx.summarize(lib, path, ck)
    if not ck.anchor(rid, path, ex):
        return None, None
    return ex, ps


def display_self(pieces, what=SELF):
    return pieces is not None and len(pieces) == 1 and pieces[0][0] == "arg" and pieces[0][2] == "display" and pieces[0][3] == what and not pieces[0][4]


def rule_F(ck, lib):
    # integers: siblings
    n = 0
    for t in INTS:
        ex, ps = summ(ck, lib, resp(t), "C04-F")
        if ex is None:
            continue
        n += 1
        ok = len(ex) == 1 and success(ex[0])
        tr = trace(ex[0]) if ex else []
        ok = ok and len(tr) == 1 and tr[0][0] == "write_fmt" and display_self(fmtdec.decode(tr[0][1])) and ex[0].value[0] == "call" and ex[0].value[1] == W + "write_fmt"
        ck.judge(ok, "C04-F", "int:%s" % t, "%s -> `{}` of self" % t, "%s response is %s" % (t, [(o, show_term(d) if d else None) for o, d, _ in tr]))
    ck.floor("C04-F", "integer Response impls", n, 10)
    # bool
    ex, ps = summ(ck, lib, resp("bool"), "C04-F")
    if ex:
        tbl = {}
        for x in ex:
            tr = trace(x)
            val = None
            for c in x.conds:
                if c[0] == "eq" and c[1] == SELF and c[3]:
                    val = c[2][2]
                if c[0] == "true" and c[1] == SELF:
                    val = c[2]
            if len(tr) == 1 and tr[0][0] == "write_char" and tr[0][1][0] == "lit":
                tbl[val] = chr(tr[0][1][2])
        ck.judge(tbl == {True: "1", False: "0"}, "C04-F", "bool:table", "true -> '1', false -> '0'", "bool response table is %s" % tbl)
    # unit
    ex, ps = summ(ck, lib, resp("()"), "C04-F")
    if ex:
        ck.judge(all(not trace(x) and x.value == ("ctor", OK, (pathsum.UNIT,)) for x in ex), "C04-F", "unit:nothing", "() writes nothing", "() response writes something")
    # Characters
    ex, ps = summ(ck, lib, resp("microscpi::response::Characters<'_>"), "C04-F")
    if ex:
        tr = trace(ex[0])
        ck.judge(len(ex) == 1 and len(tr) == 1 and tr[0][0] == "write_str" and tr[0][1] == ("tproj", SELF, 0), "C04-F", "characters:bare", "Characters -> bare payload",
                 "Characters response is %s" % [(o, show_term(d)) for o, d, _ in tr])
    # floats: decision table, evaluated per float class (so that any arrangement of the tests - is_nan / is_infinite /
    # is_finite / is_sign_negative, nested ifs, early returns, a match on a tuple of them - is read the same way)
    classes = {
        "nan": {"is_nan": True, "is_infinite": False, "is_finite": False, "is_normal": False, "==INFINITY": False, "==NEG_INFINITY": False, "==NAN": False},
        "+inf": {"is_nan": False, "is_infinite": True, "is_finite": False, "is_sign_negative": False, "is_sign_positive": True, "is_normal": False,
                 "==INFINITY": True, "==NEG_INFINITY": False, "==NAN": False},
        "-inf": {"is_nan": False, "is_infinite": True, "is_finite": False, "is_sign_negative": True, "is_sign_positive": False, "is_normal": False,
                 "==INFINITY": False, "==NEG_INFINITY": True, "==NAN": False},
        "finite": {"is_nan": False, "is_infinite": False, "is_finite": True, "==INFINITY": False, "==NEG_INFINITY": False, "==NAN": False},
    }
    want = {"nan": {"9.91E+37"}, "+inf": {"9.9E+37"}, "-inf": {"-9.9E+37"}, "finite": {"{}"}}
    tables = {}
    for t in ("f32", "f64"):
        ex, ps = summ(ck, lib, resp(t), "C04-F")
        if ex is None:
            continue
        tbl = {k: set() for k in classes}
        unknown = []
        for x in ex:
            atoms = {}
            for c in x.conds:
                if c[0] == "true" and c[1][0] == "call" and c[1][2] == (SELF,):
                    atoms[c[1][1].split("::")[-1]] = c[2]
                elif c[0] == "true" and c[1][0] == "bin" and c[1][1] in ("Eq", "Ne") and SELF in (c[1][2], c[1][3]) and \
                        [o_ for o_ in (c[1][2], c[1][3]) if o_[0] == "const" and o_[1].split("::")[-1] in ("INFINITY", "NEG_INFINITY", "NAN")]:
                    # a comparison with one of the float constants: true for exactly one class (never for NaN)
                    k_ = [o_ for o_ in (c[1][2], c[1][3]) if o_[0] == "const"][0][1].split("::")[-1]
                    atoms["==" + k_] = c[2] if c[1][1] == "Eq" else (not c[2])
                elif c[0] == "true":
                    unknown.append(show_term(c[1]))
            tr = trace(x)
            out = None
            if len(tr) == 1 and tr[0][0] == "write_str" and tr[0][1][0] == "lit":
                out = tr[0][1][2]
            elif len(tr) == 1 and tr[0][0] == "write_fmt" and display_self(fmtdec.decode(tr[0][1])):
                out = "{}"
            else:
                out = "?" + str([(o, show_term(d) if d else None) for o, d, _ in tr])
            for k, asg in classes.items():
                if all(asg.get(a, v) == v for a, v in atoms.items()) and all(a in asg or a in ("is_sign_negative", "is_sign_positive") for a in atoms):
                    tbl[k].add(out)
        tables[t] = tbl
        ck.judge(tbl == want and not unknown, "C04-F", "float:%s:table" % t, "%s: %s" % (t, {k: sorted(v) for k, v in tbl.items()}),
                 "%s sentinel table is %s, expected %s%s" % (t, {k: sorted(v) for k, v in tbl.items()}, {k: sorted(v) for k, v in want.items()}, (" (conditions not understood: %s)" % unknown[:3]) if unknown else ""))
    ck.judge(tables.get("f32") == tables.get("f64"), "C04-F", "float:siblings", "f32 and f64 agree", "f32 and f64 disagree: %s" % tables)
    # Arbitrary
    ex, ps = summ(ck, lib, resp("microscpi::response::Arbitrary<'_>"), "C04-F")
    if ex:
        data = ("tproj", SELF, 0)
        n_ok = 0
        for i, x in enumerate(ex):
            if not success(x):
                continue
            tr = trace(x)
            pos = None
            for c in x.conds:
                if c[0] == "true" and c[1][0] == "bin" and strip_sites(c[1][2]) == ("call", "core::slice::len", (data,)) and c[1][3] == ("lit", "int", 0):
                    if c[1][1] in ("Gt", "Ne"):
                        pos = c[2]
                    elif c[1][1] in ("Eq", "Le"):
                        pos = not c[2]
                if c[0] == "true" and c[1][0] == "call" and c[1][1].endswith("::is_empty") and c[1][2] == (data,):
                    pos = not c[2]
                # len.checked_ilog10() is Some exactly for len > 0
                if c[0] == "is" and c[2] == SOME and c[1][0] == "call" and c[1][1].endswith("::checked_ilog10") and strip_sites(c[1][2]) == (("call", "core::slice::len", (data,)),):
                    pos = c[3]
            if pos:
                n_ok += 1
                ok = len(tr) == 2 and tr[0][0] == "write_fmt" and tr[1][0] == "write_bytes" and tr[1][1] == data
                if ok:
                    pc = fmtdec.decode(tr[0][1])
                    ln = ("call", "core::slice::len", (data,))
                    def is_log(t_):
                        # ilog10(len) or the Some-payload of checked_ilog10(len)
                        if t_[0] == "call" and t_[1].endswith("::ilog10") and t_[2] == (ln,):
                            return True
                        return t_[0] == "payload" and t_[2] == SOME and t_[1][0] == "call" and t_[1][1].endswith("::checked_ilog10") and t_[1][2] == (ln,)
                    ok = pc is not None and len(pc) == 3 and pc[0] == ("lit", b"#") and pc[1][0] == "arg" and pc[2][0] == "arg" and not pc[1][4] and not pc[2][4] \
                        and strip_sites(pc[2][3]) == ln and strip_sites(pc[1][3])[0] == "bin" and strip_sites(pc[1][3])[1] == "Add" \
                        and is_log(strip_sites(pc[1][3])[2]) and strip_sites(pc[1][3])[3] == ("lit", "int", 1)
                ck.judge(ok, "C04-F", "arbitrary:block", "#<ilog10(len)+1><len> then the raw bytes", "non-empty block response is %s" % [(o, show_term(d)) for o, d, _ in tr])
                # the header write is ?-propagated before the payload
                ck.judge(any(c[0] == "is" and c[2] == OK and c[3] and c[1][0] == "call" and c[1][1] == W + "write_fmt" for c in x.conds), "C04-F", "arbitrary:header-checked",
                         "header write result checked before the payload", "payload is written although the header write may have failed")
            elif pos is False:
                n_ok += 1
                ok = len(tr) == 1 and tr[0][0] == "write_str" and tr[0][1] == ("lit", "str", "#10")
                ck.judge(ok, "C04-F", "arbitrary:empty", "empty block -> #10", "empty block response is %s" % [(o, show_term(d)) for o, d, _ in tr])
        ck.floor("C04-F", "success paths of the block response", n_ok, 2)
    # tuples
    for ar, ty in ((2, "(A, B)"), (3, "(A, B, C)"), (4, "(A, B, C, D)")):
        ex, ps = summ(ck, lib, resp(ty), "C04-F")
        if ex is None:
            continue
        want_ops = []
        for j in range(ar):
            if j:
                want_ops.append(("write_char", ("lit", "char", 44)))
            want_ops.append(("write_response", ("tproj", SELF, j)))
        full = [x for x in ex if success(x)]
        ok = len(full) == 1 and [(o, d) for o, d, _ in trace(full[0])] == want_ops
        ck.judge(ok, "C04-F", "tuple%d:order" % ar, "elements 0..%d in order, ',' between" % (ar - 1), "tuple response order is %s" % [[(o, show_term(d)) for o, d, _ in trace(x)] for x in full])
        # every step but the last is ?-propagated: failing step k ends the path with that error
        errs = [x for x in ex if x.kind == "err"]
        ck.judge(len(errs) == len(want_ops) - 1, "C04-F", "tuple%d:propagation" % ar, "%d early-exit paths" % len(errs), "tuple response has %d error exits for %d fallible steps" % (len(errs), len(want_ops) - 1))
    # lists
    # a reference is written like what it refers to: the blanket `impl Response for &T` (when there is one) hands `**self`
    # on and returns the result, nothing else - `&[T]` and `&str` are then the impls of `[T]` and `str`
    blanket = lib.body(resp("&T"))
    if blanket is not None:
        bex, bps = summ(ck, lib, resp("&T"), "C04-F")
        okb = bool(bex)
        for x in bex or []:
            tr = trace(x)
            d_ = tr[0][1] if len(tr) == 1 else None
            while d_ is not None and d_[0] in ("deref", "ref"):
                d_ = d_[1]
            if not (len(tr) == 1 and tr[0][0] == "write_response" and d_ == SELF and len(x.calls()) == 1):
                okb = False
        ck.judge(okb, "C04-F", "reference:forwards", "&T is written as T: write_response(**self) and nothing else", "the blanket Response impl for references is %s" % [[(o, show_term(d)) for o, d, _ in trace(x)] for x in bex or []][:3])
    n_lists = 0
    for ty in ("[T]", "&[T]", "heapless::vec::Vec<T, N>"):
        if lib.body(resp(ty)) is None and ty in ("[T]", "&[T]") and (blanket is not None or ty == "[T]"):
            continue        # slices answer through one of the two forms
        ex, ps = summ(ck, lib, resp(ty), "C04-F")
        if ex is None:
            continue
        n_lists += 1
        ok = True
        why = []
        n_body = 0
        for x in ex:
            if x.kind != "backedge":
                continue
            n_body += 1
            tr = [(o, d) for o, d, _ in trace(x) ]
            first = None
            for c in x.conds:
                if c[0] == "true" and c[1][0] == "bin" and c[1][1] == "Gt" and c[1][3] == ("lit", "int", 0) and c[1][2][0] == "tproj" and c[1][2][2] == 0 and c[1][2][1][0] == "iter_item":
                    first = not c[2]
                    item = ("tproj", c[1][2][1], 1)
                    src = c[1][2][1][1]
            if first is None:
                ok = False
                why.append("loop body does not distinguish the first element")
                continue
            okit = src[0] == "call" and src[1].endswith("::enumerate") and src[2][0][0] == "call" and src[2][0][1].endswith("::iter") and from_self(src[2][0][2][0])
            want_ops = ([] if first else [("write_char", ("lit", "char", 44))]) + [("write_response", item)]
            if tr != want_ops or not okit:
                ok = False
                why.append("body(%s) writes %s" % ("first" if first else "later", [(o, show_term(d)) for o, d in tr]))
        done = [x for x in ex if success(x)]
        verdict = ok and n_body == 2 and len(done) == 1
        alt = None
        if not verdict:
            alt = list_alt_form(ex, ty)
        ck.judge(verdict or bool(alt), "C04-F", "list:%s" % ty, alt or "',' before every element but the first, elements of self in order", "list response: %s" % (why or "unexpected shape"))
    ck.floor("C04-F", "list Response impls", n_lists, 2)
    # Error
    ex, ps = summ(ck, lib, resp("microscpi::error::Error"), "C04-F")
    if ex:
        tr = trace(ex[0])
        ok = len(ex) == 1 and len(tr) == 1 and tr[0][0] == "write_response" and tr[0][1][0] == "tuple" and len(tr[0][1][1]) == 2
        if ok:
            a, b = tr[0][1][1]
            ok = a[0] == "call" and a[1] == "microscpi::error::Error::number" and a[2] == (SELF,) and b[0] == "call" and b[1].endswith("::into") and b[2] == (SELF,)
        ck.judge(ok, "C04-F", "error:number-text", "Error -> (number, text)", "Error response is %s" % [(o, show_term(d)) for o, d, _ in tr])


def list_alt_form(ex, ty):
    """Two more ways to write a list response:
    (a) delegation - the impl hands `self`, seen through a borrowing view, to the write_response of the slice impl and does
        nothing else;
    (b) first-then-rest - nothing for an empty list; otherwise the first element, then ',' + element for every element of
        the rest (`[first, rest @ ..]`, `split_first()`)."""
    succ = [x for x in ex if success(x)]
    trs = [[(o, d) for o, d, _ in trace(x)] for x in succ]
    if len(succ) == 1 and len(trs[0]) == 1 and trs[0][0][0] == "write_response" and from_self(trs[0][0][1]) and not [x for x in ex if x.kind == "backedge"]:
        return "delegates to the slice impl: write_response(self as a slice)"
    # (b)
    back = [x for x in ex if x.kind == "backedge"]
    if len(back) != 1:
        return None
    rest_src = None
    tb = [(o, d) for o, d, _ in trace(back[0])]
    # after the loop head: ',' then the item
    after = [(e[1][len(W):], e[2][1] if len(e[2]) > 1 else None) for e in back[0].after_head() if e[0] == "call" and e[1].startswith(W)]
    items = [e for e in back[0].after_head() if e[0] == "call" and is_wr(e[1])]
    if after != [("write_char", ("lit", "char", 44))] or len(items) != 1:
        return None
    it = strip_sites(items[0][2][0])
    if it[0] != "iter_item":
        return None
    src = it[1]
    while src[0] == "call" and src[1].split("::")[-1] in ("iter", "into_iter") and src[2]:
        src = src[2][0]
    form_c = list_iter_form(back[0], succ, it)
    if form_c:
        return form_c
    # rest = self[1..] (through a view)
    if not (src[0] == "index" and from_self(src[1]) and src[2][0] == "struct" and src[2][1].endswith("RangeFrom") and dict(src[2][2]).get("start") == ("lit", "int", 1)):
        return None
    # before the loop: exactly the first element
    pre = []
    for e in back[0].effects:
        if e[0] == "loop_head":
            break
        if e[0] == "call" and is_wr(e[1]):
            pre.append(strip_sites(e[2][0]))
        elif e[0] == "call" and e[1].startswith(W):
            return None
    if len(pre) != 1 or not (pre[0][0] == "index" and from_self(pre[0][1]) and pre[0][2] == ("lit", "int", 0)):
        return None
    # the empty list writes nothing
    empties = [x for x in succ if not trace(x)]
    if not empties or not all(any(c[0] == "empty" and c[2] is True and from_self(c[1]) for c in x.conds) for x in empties):
        return None
    return "first element, then ',' + element for each of self[1..]; nothing for an empty list"


def list_iter_form(back, succ, it):
    """(c) one explicit iterator over self: `let mut it = self.iter(); if let Some(first) = it.next() { first; for x in it { ',' x } }`
    - the element taken by the single `next()` in front of the loop is written first, the loop then runs over the *same*
    iterator (what is left of it), and nothing else touches the iterator; an empty list (next() is None) writes nothing."""
    itsrc = it[1]
    base = itsrc
    while base[0] == "call" and base[1].split("::")[-1] in ("iter", "into_iter") and base[2]:
        base = base[2][0]
    if base == itsrc or not from_self(base):
        return None
    pre_items, nexts = [], []
    for e in back.effects:
        if e[0] == "loop_head":
            break
        if e[0] != "call":
            continue
        args = [strip_sites(a) for a in e[2]]
        if is_wr(e[1]):
            pre_items.append(args[0])
        elif e[1].startswith(W):
            return None
        elif strip_sites(itsrc) in args:
            if e[1].endswith("::next") and len(args) == 1:
                nexts.append(e)
            else:
                return None         # skip(), nth(), a second consumer ...: not this form
    if len(nexts) != 1 or len(pre_items) != 1:
        return None
    nx = ("call", nexts[0][1], (strip_sites(itsrc),))
    first = pre_items[0]
    if not (first[0] == "payload" and first[2] == SOME and first[3] == 0 and first[1][0] == "call" and first[1][1] == nx[1] and tuple(first[1][2]) == nx[2]):
        return None
    def is_none(c):
        t = strip_sites(c[1])
        return c[0] == "is" and c[2] == SOME and c[3] is False and t[0] == "call" and t[1] == nx[1] and tuple(t[2]) == nx[2]
    empties = [x for x in succ if not trace(x)]
    if not empties or not all(any(is_none(c) for c in x.conds) for x in empties):
        return None
    return "one iterator over self: the element taken by next() first, then ',' + element for what the same iterator still yields; nothing for an empty list"


def rule_Q(ck, lib, tag=""):
    """string quoting: every string-like Response impl (helpers evaluated in place) writes '"', then the text only as the
    segments of a split at '"' with '""' between consecutive segments, then '"'."""
    strs = [b["def"] for b in lib.facts["bodies"] if b.get("trait") == "microscpi::response::Response" and b.get("name") == "write_response"
            and b.get("self_ty") in ("&str", "str", "heapless::string::String<N>", "alloc::string::String", "std::string::String")]
    ck.floor("C04-Q", tag + "string Response impls", len(strs), 3 if tag else 2)
    for r in sorted(strs):
        ex, ps = ctx.summarize(lib, r, ck)
        if not ck.anchor("C04-Q", r, ex):
            continue
        # the text being quoted: what is split at the quote character (must be `self` seen through a view)
        payload = SELF
        for x in ex:
            for e in x.effects:
                if e[0] == "call" and e[1].split("::")[-1] == "split" and len(e[2]) == 2 and from_self(e[2][0]):
                    payload = strip_sites(e[2][0])
        problems = []
        n_seg = 0
        for x in ex:
            tr = trace(x)
            ops = []
            for (o, d, site) in tr:
                k = classify(d, o, payload)
                ops.append((k, site))
                if k == "RAW":
                    problems.append("the whole text (or something derived from it other than a segment between quotes) reaches the writer at %s: `%s`" % (site, show_term(d)))
                if k == "OTHER":
                    problems.append("unexpected data written at %s: %s(%s)" % (site, o, show_term(d)))
            seq = [k for k, _ in ops]
            after = [k for k, _ in classify_after_head(x, tr, payload)]
            has_head = any(e[0] == "loop_head" for e in x.effects)
            if x.kind == "backedge":
                if "SEG" in after:
                    n_seg += 1
                    i = after.index("SEG")
                    first = first_iteration(x)
                    if i == 0 or after[i - 1] != "Q2":
                        if first is not True:
                            problems.append("a segment is written in the loop without a doubled quote before it (and not known to be the first): %s" % after)
                    elif first is True:
                        problems.append("a doubled quote is written before the first segment")
            if success(x) or (x.kind == "return" and x.value[0] == "call" and x.value[1].startswith(W)):
                if not seq or seq[-1] != "Q1":
                    problems.append("success path does not end with the closing quote: %s" % seq)
            pre = seq[:len(seq) - len(after)] if has_head else seq
            if pre and pre[0] != "Q1":
                problems.append("the opening quote is not the first thing written: %s" % pre)
            # a first segment written before the loop (peeled first iteration) is fine; a second one there is not
            if has_head and pre.count("SEG") > 1:
                problems.append("several segments written without a doubled quote between them: %s" % pre)
            if pre.count("SEG") == 1:
                n_seg += 1
        if n_seg == 0 and not problems:
            problems.append("no path writes the text as segments between quotes")
        if problems:
            alt = quote_split_once_form(ex, ps)
            if alt:
                ck.ok("C04-Q", tag + "quoting:%s" % r.split(" as ")[0].strip("<"), alt)
                continue
        ck.judge(not problems, "C04-Q", tag + "quoting:%s" % r.split(" as ")[0].strip("<"), "'\"' + segments of split('\"') joined by '\"\"' + '\"'",
                 "; ".join(sorted(set(problems))[:4]), data=[pathsum.show_exit(x)[:600] for x in ex][:6])


def quote_split_once_form(ex, ps):
    """The other way to double the quotes: `'"'; rest = text; while let Some((before, after)) = rest.split_once('"')
    { write before; write '""'; rest = after }; write rest; '"'`.  Loop invariant: what has been written is the opening
    quote followed by the consumed part of the text with every quote doubled. -> description, or None."""
    if len(ps.loops) != 1:
        return None
    (site, info), = ps.loops.items()
    if len(info["vars"]) != 1:
        return None
    (rid, rname), = info["vars"].items()
    R = ("loopvar", rid, rname, site)
    if not info["entry"] or not all(from_self(st.env.get(rid) or ("?",)) for st in info["entry"]):
        return None

    def is_quote(t):
        return t == ("lit", "char", 34) or t == ("lit", "str", "\"")

    def so_of(x):
        for c in x.conds:
            t = strip_sites(c[1]) if c[0] == "is" else None
            if c[0] == "is" and c[2] == SOME and t[0] == "call" and t[1].split("::")[-1] == "split_once" and len(t[2]) == 2 and t[2][0] == R and is_quote(t[2][1]):
                return t, c[3]
        return None, None

    def writes(effs):
        return [(e[1][len(W):], strip_sites(e[2][1]) if len(e[2]) > 1 else None) for e in effs if e[0] == "call" and e[1].startswith(W) and e[1][len(W):] != "flush"]
    n_back = n_done = 0
    for x in ex:
        pre = []
        for e in x.effects:
            if e[0] == "loop_head":
                break
            pre.append(e)
        has_head = any(e[0] == "loop_head" for e in x.effects)
        if not has_head:
            if success(x):
                return None           # a success path that never reaches the loop
            continue
        wpre = writes(pre)
        if wpre != [("write_char", ("lit", "char", 34))] and wpre != [("write_str", ("lit", "str", "\""))]:
            return None
        so, found = so_of(x)
        after = writes(x.after_head(site))
        if x.kind == "backedge":
            n_back += 1
            pl = ("payload", so, SOME, 0) if so else None
            if not (found is True and after == [("write_str", ("tproj", pl, 0)), ("write_str", ("lit", "str", "\"\""))] and strip_sites(x.env.get(rid)) == ("tproj", pl, 1)):
                return None
        elif success(x) or (x.kind == "return" and x.value is not None and x.value[0] == "call" and x.value[1].startswith(W)):
            n_done += 1
            if not (found is False and after[:1] == [("write_str", R)] and after[1:] in ([("write_char", ("lit", "char", 34))], [("write_str", ("lit", "str", "\""))])):
                return None
    if n_back == 1 and n_done >= 1:
        return "'\"' + (segment before the next quote + '\"\"')* + rest + '\"'  (split_once loop; invariant: written = quote + consumed text with quotes doubled)"
    return None


def classify(d, op, payload):
    if d is None:
        return "OTHER"
    if d[0] == "lit":
        v = d[2]
        if d[1] == "char" and v == 34:
            return "Q1"
        if d[1] == "str" and v == "\"":
            return "Q1"
        if d[1] == "str" and v == "\"\"":
            return "Q2"
        return "OTHER"
    if is_segment(d, payload):
        return "SEG"
    if op == "write_fmt":
        pcs = fmtdec.decode(d)
        if pcs is not None and any(p[0] == "arg" and mentions(p[3], payload) for p in pcs):
            return "RAW"
        return "OTHER"
    if mentions(d, payload):
        return "RAW"
    return "OTHER"


def mentions(t, payload):
    return t is not None and any(s == payload for s in pathsum.subterms(t))


def is_split_on_quote(t, payload):
    """t = split(payload, '"')  (possibly through enumerate / peekable)"""
    t = strip_sites(t)
    while t[0] == "call" and t[1].split("::")[-1] in ("enumerate", "peekable", "into_iter", "by_ref") and t[2]:
        t = t[2][0]
    if t[0] == "call" and t[1].split("::")[-1] in ("split",) and len(t[2]) == 2 and t[2][0] == payload:
        q = t[2][1]
        return q == ("lit", "char", 34) or q == ("lit", "str", "\"")
    return False


def is_segment(d, payload):
    d = strip_sites(d)
    # item of the iteration (optionally `.1` of an enumerate item), or next() of the split
    if d[0] == "tproj" and d[1][0] == "iter_item":
        d = d[1]
    if d[0] == "iter_item":
        return is_split_on_quote(d[1], payload)
    if d[0] == "payload" and d[2] == SOME and d[1][0] == "call" and d[1][1].endswith("::next"):
        return is_split_on_quote(d[1][2][0], payload)
    return False


def classify_after_head(x, tr, payload):
    ops = []
    seen_head = False
    for e in x.effects:
        if e[0] == "loop_head":
            seen_head = True
            ops = []
        elif e[0] == "call" and e[1].startswith(W) and seen_head:
            ops.append((classify(e[2][1] if len(e[2]) > 1 else None, e[1][len(W):], payload), e[3]))
    return ops


def first_iteration(x):
    for c in x.conds:
        if c[0] == "true" and c[1][0] == "bin" and c[1][1] == "Gt" and c[1][3] == ("lit", "int", 0) and c[1][2][0] == "tproj" and c[1][2][1][0] == "iter_item":
            return not c[2]
        if c[0] == "true" and c[1][0] == "bin" and c[1][1] == "Eq" and c[1][3] == ("lit", "int", 0) and c[1][2][0] == "tproj" and c[1][2][1][0] == "iter_item":
            return c[2]
    return None


def rule_X(ck, lib):
    EXECUTE = "microscpi::interface::Interface::execute"
    EXECMD = "microscpi::interface::Interface::execute_command"
    ex, ps = summ(ck, lib, EXECUTE, "C04-X")
    if ex is None:
        return
    b = lib.body(EXECUTE)
    callp = ("param", b["params"][1].get("name"))
    q = ("field", callp, "query")
    n = 0
    for i, x in enumerate(ex):
        qv = None
        for c in x.conds:
            if c[0] == "true" and c[1] == q:
                qv = c[2]
        cmds = [e for e in x.effects if e[0] == "call" and e[1] == EXECMD]
        tr = [(o, d) for o, d, _ in trace(x)]
        okc = None
        if cmds:
            okc = ps.decided(St(x.conds), ("call",) + cmds[0][1:], OK)
        n += 1
        key = "execute:%s:%s#%d" % ("query" if qv else "command", "ok" if okc else "fail" if okc is False else "none", i)
        if qv and okc:
            # write_char('\n') then flush; each ?-propagated; nothing after
            want = [("write_char", ("lit", "char", 10)), ("flush", None)]
            last_is_flush = x.value[0] == "call" and x.value[1] == W + "flush" and x.effects and [e for e in x.effects if e[0] == "call"][-1][1] == W + "flush"
            if success(x):
                ck.judge(tr == want and (x.value == ("ctor", OK, (pathsum.UNIT,)) or last_is_flush), "C04-X", key, "successful query: '\\n' then flush, then Ok",
                         "successful query path writes %s (expected newline, then flush)" % [(o, show_term(d) if d else None) for o, d in tr])
            else:
                ck.judge(tr == want[:len(tr)] and x.kind in ("return", "err") and x.value[0] == "ctor" and x.value[1] == ERR, "C04-X", key + ":writer-error", "writer error propagated",
                         "writer failure path: %s / %s" % (tr, x.kind))
            # order: after execute_command
            idx_cmd = [j for j, e in enumerate(x.effects) if e[0] == "call" and e[1] == EXECMD]
            idx_w = [j for j, e in enumerate(x.effects) if e[0] == "call" and e[1].startswith(W)]
            ck.judge(not idx_w or min(idx_w) > idx_cmd[0], "C04-X", key + ":after-handler", "terminator written after the handler ran", "newline/flush before the handler ran")
        else:
            ck.judge(not tr, "C04-X", key, "no output (command, failed query or empty slot)", "output on a path that must stay silent: %s" % [(o, show_term(d) if d else None) for o, d in tr])
    ck.floor("C04-X", "paths of execute", n, 6)


# what a Write impl may do with its receiver: append, or look
RECEIVER_OPS = frozenset(("extend_from_slice", "push", "push_str", "write_fmt", "write_str", "write_char", "extend", "reserve", "try_reserve",
                          "len", "capacity", "is_full", "is_empty", "as_slice", "as_ref", "as_bytes", "as_str", "deref", "borrow", "iter", "last", "first", "get"))


def rule_W(ck, lib, tag=""):
    allowed_fn = lambda d, b: (b.get("trait") in ("microscpi::response::Response", "microscpi::response::Write")) or d in ("microscpi::interface::Interface::execute",) or d.startswith("microscpi::response::")
    base_allowed = allowed_fn
    helpers = ctx.inline_helpers(lib)

    def allowed_fn(d, b, depth=0):
        """... and a private helper all of whose callers may write (its body is evaluated in place at their call sites)"""
        if base_allowed(d, b):
            return True
        root = hir.base_path(d.split("::{closure")[0])
        if root not in helpers or depth > 4:
            return False
        callers = [bb for bb in lib.facts["bodies"] if any(hir.base_path(hir.callee(y) or "") == root for y in hir.walk(bb["value"]))]
        return bool(callers) and all(allowed_fn(bb["def"], bb, depth + 1) for bb in callers if hir.base_path(bb["def"].split("::{closure")[0]) != root)

    n = 0
    for b in lib.facts["bodies"]:
        for xn in hir.walk(b["value"]):
            c = hir.base_path(hir.callee(xn) or "")
            if c.startswith(W):
                n += 1
                ck.judge(allowed_fn(b["def"], b), "C04-W", tag + "who-writes:%s#%d" % (b["def"].split("::")[-1], n), "%s called from %s" % (c.split("::")[-1], b["def"]),
                         "writer method %s is called from %s (only Response impls, their helper and execute may write)" % (c.split("::")[-1], b["def"]), hir.loc(xn))
                if c == W + "write_char":
                    a = hir.strip(xn["args"][0])
                    ok = a.get("k") == "Lit" and a["lit"]["t"] == "char" and a["lit"]["v"] < 128
                    detail = "write_char(%r)" % (chr(a["lit"]["v"]) if ok else "?")
                    if not ok:
                        # not a literal in the source: every value it can take on any path must be an ASCII literal
                        try:
                            ex_, ps_ = ctx.summarize(lib, b["def"], ck)
                            vals = [e[2][1] for x_ in (ex_ or []) for e in x_.effects if e[0] == "call" and e[1] == W + "write_char" and e[3] == hir.loc(xn)]
                            ok = bool(vals) and all(v[0] == "lit" and v[1] == "char" and v[2] < 128 for v in vals)
                            detail = "write_char(%s)" % sorted({chr(v[2]) for v in vals if v[0] == "lit"})
                        except pathsum.Unsupported:
                            ok = False
                    ck.judge(ok, "C04-W", tag + "write_char-ascii:%s#%d" % (b["def"].split("::")[-1], n), detail,
                             "write_char is given %s: the shipped writers store `c as u8`, exact only for ASCII literals" % hir.show(a), hir.loc(xn))
    ck.floor("C04-W", tag + "writer call sites", n, 25)
    # shipped Write impls: every method either appends exactly its argument or fails
    impls = [b for b in lib.facts["bodies"] if b.get("trait") == "microscpi::response::Write"]
    ck.floor("C04-W", tag + "Write impl methods", len(impls), 10 if tag else 5)
    by_impl = {(b["self_ty"], b["name"]): b for b in impls}

    def appended(b, x, ps, depth=0):
        """(data term, append call or None, delegate call or None) of one success path; a method that hands its argument to
        a sibling method of the same writer (`self.write_bytes(s.as_bytes())`) appends what the sibling appends."""
        calls = x.calls()
        apps = [c for c in calls if c[1].split("::")[-1] in ("extend_from_slice", "push", "write_fmt", "push_str") and w_method(c[1]) is None]
        dels = [c for c in calls if w_method(c[1]) in ("write_bytes", "write_str", "write_char") and c[2] and c[2][0] == ("param", b["params"][0].get("name"))]
        if len(apps) == 1 and not dels:
            d_ = apps[0][2][1]
            if d_[0] == "array" and len(d_[1]) == 1:
                d_ = d_[1][0]          # extend_from_slice(&[x]) appends x
            return d_, apps[0], None
        if not apps and len(dels) == 1 and depth < 3:
            m2 = w_method(dels[0][1])
            b2 = by_impl.get((b["self_ty"], m2))
            if b2 is None or b2 is b:
                return None, None, dels[0]
            ex2, ps2 = ctx.summarize(lib, b2["def"], ck)
            arg2 = ("param", b2["params"][1].get("name"))
            shapes = set()
            for x2 in [y for y in ex2 if success(y)]:
                d2, a2, _ = appended(b2, x2, ps2, depth + 1)
                if d2 is None:
                    return None, None, dels[0]
                shapes.add("arg" if d2 == arg2 else "bytes" if (d2[0] == "call" and d2[1].endswith("::as_bytes") and d2[2] == (arg2,)) else "u8" if d2 == ("cast", arg2, "u8") else "?")
            if len(shapes) != 1 or "?" in shapes:
                return None, None, dels[0]
            a = dels[0][2][1]
            sh = shapes.pop()
            return (a if sh == "arg" else ("call", "core::str::as_bytes", (a,), None) if sh == "bytes" else ("cast", a, "u8")), None, dels[0]
        return None, (apps[0] if apps else None), (dels[0] if dels else None)

    def through_adapter(b, x, ps, arg):
        """write_fmt hands `args` to core::fmt::write with a local adapter that wraps `self` (so that it can keep notes, e.g.
        whether the buffer ran full): accepted when the adapter's own fmt::Write::write_str appends exactly its argument to
        the wrapped writer on every success path, and write_fmt's success path is the one where core::fmt::write succeeded."""
        fw = [c for c in x.calls() if c[1] == "core::fmt::write" or c[1].endswith("fmt::Write::write_fmt")]
        if len(fw) != 1 or len(fw[0][2]) != 2 or strip_sites(fw[0][2][1]) != arg:
            return False
        ad = strip_sites(fw[0][2][0])
        while ad[0] in ("ref", "refmut", "mutref", "deref"):
            ad = ad[1]
        if ad[0] != "struct":
            return False
        wrapped = [f_ for f_, v_ in ad[2] if v_ == SELF]
        if len(wrapped) != 1:
            return False
        if ps.decided(St(x.conds), ("call",) + fw[0][1:], OK) is not True:
            return False
        b2s = [b_ for b_ in lib.facts["bodies"] if b_.get("trait") == "core::fmt::Write" and b_.get("name") == "write_str" and (b_.get("self_ty") or "").split("<'")[0].split("<")[0] == ad[1].split("<'")[0]
               or (b_.get("trait") == "core::fmt::Write" and b_.get("name") == "write_str" and (b_.get("self_ty") or "").startswith(ad[1]))]
        if len(b2s) != 1:
            return False
        ex2, ps2 = ctx.summarize(lib, b2s[0]["def"], ck)
        s_arg = ("param", b2s[0]["params"][1].get("name"))
        seen_ok = False
        for y in ex2 or []:
            apps2 = [c for c in y.calls() if c[1].split("::")[-1] in ("extend_from_slice", "push_str", "write_str", "write_bytes")]
            v = y.value
            is_ok = v is not None and v[0] == "ctor" and v[1] == OK
            if is_ok:
                seen_ok = True
                if len(apps2) != 1:
                    return False
                recv, dat = strip_sites(apps2[0][2][0]), strip_sites(apps2[0][2][1])
                while recv[0] in ("deref", "ref", "refmut", "mutref"):
                    recv = recv[1]
                if recv != ("field", SELF, wrapped[0]):
                    return False
                if not (dat == s_arg or (dat[0] == "call" and dat[1].endswith("::as_bytes") and dat[2] == (s_arg,))):
                    return False
                if ps2.decided(St(y.conds), ("call",) + apps2[0][1:], OK) is False:
                    return False
        return seen_ok

    for b in impls:
        ex, ps = ctx.summarize(lib, b["def"], ck)
        name = b["name"]
        st = b["self_ty"].split("<")[0].split("::")[-1]
        key = tag + "write-impl:%s:%s" % (st, name)
        oks = [x for x in ex if success(x)]
        if name == "flush":
            ck.judge(all(not x.calls() for x in ex), "C04-W", key, "flush is a no-op for in-memory writers", "flush does something")
            continue
        arg = ("param", b["params"][1].get("name")) if len(b["params"]) > 1 else None
        good = True
        why = ""
        for x in oks:
            data, app, dele = appended(b, x, ps)
            if data is None and name == "write_fmt" and through_adapter(b, x, ps, arg):
                continue        # formatted through a forwarding core::fmt::Write adapter around self
            if data is None:
                good = False
                why = "success path does not append exactly once (directly or through one sibling method of the same writer)"
                continue
            data = strip_sites(data)
            why_fmt = None
            if name == "write_bytes":
                okd = data == arg
            elif name == "write_str":
                okd = data[0] == "call" and data[1].endswith("::as_bytes") and data[2] == (arg,)
            elif name == "write_char":
                # the character as one byte (the library writes ASCII only, rule write_char-ascii) or as its UTF-8 encoding
                okd = data == ("cast", arg, "u8") or (data[0] == "call" and data[1].endswith("::as_bytes") and len(data[2]) == 1 and data[2][0][0] == "call"
                                                       and data[2][0][1].endswith("::encode_utf8") and data[2][0][2] and data[2][0][2][0] == arg)
            else:
                # write_fmt: the pieces go to the writer itself, or through a formatted string that grows as needed
                # (alloc's `format`); an intermediate of a capacity of its own would lose an element the writer has room for
                okd = data == arg
                if not okd and data[0] == "call" and data[1].endswith("::as_bytes") and len(data[2]) == 1:
                    src = data[2][0]
                    while src[0] in ("ref", "deref") or (src[0] == "call" and src[1].split("::")[-1] in ("as_str", "deref", "borrow", "as_ref", "must_use") and len(src[2]) == 1):
                        src = src[1] if src[0] in ("ref", "deref") else src[2][0]
                    okd = src[0] == "call" and src[1].split("::")[0] in ("alloc", "std") and (any(u == arg for u in pathsum.subterms(src)) or any(u[0] == "local" and u[-1] == arg[1] for u in pathsum.subterms(src) if u))
                    if not okd:
                        why_fmt = "formats into `%s` and appends that: an intermediate with a capacity of its own between the value and the writer" % show_term(src)[:160]
            if not okd:
                good = False
                why = "appends %s instead of its argument" % show_term(data)
                if why_fmt:
                    why = why_fmt
            # fallible appends must have their failure mapped to Err on the other path
            if app is not None and (app[1].startswith("heapless::") or app[1].startswith("core::fmt::")):
                t = ("call",) + app[1:]
                if ps.decided(St(x.conds), t, OK) is not True:
                    good = False
                    why = "result of %s is not checked" % app[1].split("::")[-1]
            if dele is not None:
                t = ("call",) + dele[1:]
                if ps.decided(St(x.conds), t, OK) is not True and strip_sites(x.value) != strip_sites(t):
                    good = False
                    why = "result of the sibling method %s is neither checked nor returned" % dele[1].split("::")[-1]
        ck.judge(good and oks, "C04-W", key, "%s::%s appends exactly its argument or reports failure" % (st, name), "%s::%s: %s" % (st, name, why or "no success path"))
        # ... and on *no* path - the failing ones included - does a writer method take anything away from what the writer
        # already holds (clear / truncate / pop ... on overflow would wipe the complete answer of an earlier unit of the
        # same message, which `process` has not sent yet): the only operations on the receiver are appending or read-only
        n_recv = 0
        bad_ops = []
        for x in ex:
            for c in x.calls():
                if not c[2]:
                    continue
                r = strip_sites(c[2][0])
                while r[0] in ("ref", "refmut", "mutref", "deref"):
                    r = r[1]
                if r != SELF:
                    continue
                n_recv += 1
                op = c[1].split("::")[-1]
                if w_method(c[1]) is not None or op in RECEIVER_OPS:
                    continue
                bad_ops.append("%s (%s)" % (op, c[3] if len(c) > 3 else "?"))
        ck.judge(not bad_ops, "C04-W", key + ":receiver-ops", "%d operations on the writer itself, all appending or read-only" % n_recv,
                 "%s::%s applies %s to the writer itself: a writer method may append to what it holds or leave it alone, never remove or overwrite it" % (st, name, sorted(set(bad_ops))))


def rule_A(ck):
    if getattr(ck, "cfg_rerun", False):
        return      # witness interfaces are compiled against the default configuration only
    count = 400 if ck.tier == "thorough" else 40
    fs, specs, failures = witness.build(ck, ck.seed, count)
    wit = fs.crate("wit.rlib")
    if fs.rc != 0 or wit is None:
        ck.bad("C04-A", "witness:build", "witness interfaces do not build: %s" % [m for _, m in failures][:1])
        return
    enums = ctx.enums_of(wit)
    n = 0
    for spec in specs:
        it = witness.Iface(wit, spec)
        arms = witness.Arms(it, enums)
        if not arms.ok:
            ck.bad("C04-A", "witness:%s:execute_command" % spec["mod"], "no generated dispatcher")
            continue
        for k, xs in sorted(arms.by_arm.items()):
            n += 1
            probs = []
            for x in xs:
                hc = arms.handler_calls(x)
                wrs = [e for e in x.effects if e[0] == "call" and is_wr(e[1])]
                direct = [e for e in x.effects if e[0] == "call" and e[1].startswith(W)]
                if direct:
                    probs.append("arm writes to the response directly")
                if not hc:
                    if wrs:
                        probs.append("response written on a path where the handler did not run")
                    continue
                ht = ("call",) + hc[0][1:]
                hok = arms.ps.decided(St(x.conds), ht, OK)
                if hok is not True:
                    if wrs:
                        probs.append("response written although the handler failed")
                    continue
                if len(wrs) != 1 or wrs[0][2][0] != ("payload", ht, OK, 0):
                    probs.append("handler succeeded but the response is written %d times / from %s" % (len(wrs), show_term(wrs[0][2][0]) if wrs else None))
                    continue
                wt = ("call",) + wrs[0][1:]
                wok = arms.ps.decided(St(x.conds), wt, OK)
                if wok is None:
                    probs.append("result of writing the response is ignored")
                elif wok is False:
                    if not (x.kind in ("return", "err") and x.value == ("ctor", ERR, (("payload", wt, ERR, 0),))):
                        probs.append("a failed response write ends in `%s %s` instead of returning the error" % (x.kind, show_term(x.value) if x.value else ""))
                else:
                    if not (x.kind in ("return", "err") and x.value == ("ctor", OK, (pathsum.UNIT,))):
                        probs.append("successful arm does not return Ok(())")
            ck.judge(not probs, "C04-A", "witness:%s:arm%d" % (spec["mod"], k), "response written once from the handler's Ok value, result propagated",
                     "; ".join(sorted(set(probs))))
    ck.floor("C04-A", "generated dispatcher arms", n, 150)
