"""C02 - header path context follows the SCPI compound-message rules."""
import ctx
import hir
import pathsum
import runsum
from pathsum import ERR, NONE, OK, SOME, St, show_term, strip_sites
from runsum import is_root

RERUN_ON_CONFIGS = ("dfm", "std")
LEVEL = "other"
RULE_TEXT = ("C02-T/D: the trie the macro emits spells, below every node a header path leads to, exactly what is declared below that path (translation validation on the witness families, as C01-T/D): the path context is a node of that trie. C02-ST: no body of the library names a static that can change at run time (rule C12-P). C02-R: on every loop-body path of Interface::run the path variable handed to parse is the root at entry, "
             "root again after every path on which a terminator was consumed (terminated unit, empty message, skipped "
             "faulty message), the unit's parent header after an unterminated compound unit, unchanged after a common "
             "command; C02-P: on every Ok path of compound_command_program_header the returned header is the parent of "
             "the returned node, starting from the root iff a leading colon was present (loop invariant, inductive); "
             "common headers return no path and look up under the root; C02-F: on every accepting path of parse the returned "
             "call's `terminated` flag is true exactly when the consumer of the unit's end took a newline (false for `;`) "
             "and its `header` is the path the header parser returned; C02-S: every future is awaited in place and the "
             "crate defines no Future/poll machinery."
             " C02-K: the buffer discipline of process (rules K1-K7 of C07) - run is handed one whole message per call."
             " C02-C04X: a unit's response - terminator and flush - is completed by execute itself, which run awaits in place (rule C04-X)."
             " C02-H also: parse resolves the header once, with (root, path) - no second lookup from the root."
             " C02-H also: a failure of the compound lookup is never returned as it is. C02-C06R: the exits of run per path (Incomplete hands back the unfinished unit, errors resume behind the message) - rule C06-R: no unit is offered twice.")

COMPOUND = "microscpi::parser::compound_command_program_header"
COMMON = "microscpi::parser::common_command_program_header"
CHILD = "microscpi::tree::Node::child"
HSEP = "microscpi::parser::header_separator"


def run(ck):
    ck.trust("rustc HIR/typeck", "factdump", "pathsum")
    ck.assume("root_node() is a pure accessor of a static (generated: `&SCPI_NODE_0`)")
    lib = ctx.lib(ck)
    if lib is None:
        return
    rule_R(ck, lib)
    rule_P(ck, lib)
    rule_H(ck, lib)
    rule_S(ck, lib)
    import parsefields
    import skeleton
    parsefields.check(ck, lib, skeleton.Skeleton(ck, lib), "C02-F", ("terminated", "header", "empty"))
    # run sees one whole message per call when streaming (else the path context, local to a call of run, is lost at a
    # read boundary): the buffer discipline of process, as decided for C07
    import c07
    c07.rule_K(ck, lib, "C02-K")
    # "each finishing (response included) before the next starts": the response of a query - terminator and flush - is
    # completed by execute itself, which run awaits in place (rule C04-X)
    import c04
    with ck.under("C04-", "C02-C04"):
        c04.rule_X(ck, lib)
    # each unit executes once: on Incomplete run hands back its input from the unfinished unit on (what was executed is not
    # offered again), on an error it resumes behind the message - the exits of run per path (rule C06-R)
    import c06
    c06.rule_R(ck, lib, "C02-C06R")
    # the path context is a `&'static Node` of the emitted trie: "resolved relative to the path of the preceding unit's
    # header" presupposes that the node a header path leads to spells, below it, exactly what is declared below that path -
    # two header paths sharing one static node, or a link overwritten by another declaration, resolve the unit behind ';'
    # somewhere else (seeded C02-Z: short / long / optional-omitted paths sharing nodes in the macro's tree builder).
    # Translation validation of the emitted trie on the witness families, as for C01:
    import c01
    c01.rule_T(ck, "C02-T", "C02-D")
    # "the handler a message selects never depends on any message sent before it": no state outside the locals of run
    import c12
    c12.rule_STATE(ck, lib, "C02-ST")


# ---------------------------------------------------------------- C02-R
def rule_R(ck, lib, pfx="C02"):
    rs = runsum.RunSummary(ck, lib)
    if not rs.ok:
        return
    ck.judge(rs.path_id is not None and rs.path_arg[0] == "loopvar", pfx + "-R2", "run:parse:path-arg",
             "parse(root, <path variable %s>, input)" % show_term(rs.path_arg),
             "second argument of parse is not a loop-carried local: %s" % show_term(rs.path_arg))
    ck.judge(is_root(rs.root_arg), pfx + "-R2", "run:parse:root-arg", "first argument of parse is self.root_node()",
             "first argument of parse is %s, not self.root_node()" % show_term(rs.root_arg))
    if rs.path_id is None:
        return
    # R1: entry value
    info = rs.ps.loops.get(rs.loop_site, {"entry": []})
    for st in info["entry"]:
        v = st.env.get(rs.path_id)
        ck.judge(v is not None and is_root(v), pfx + "-R1", "run:path-var:initial", "path variable starts as self.root_node()",
                 "path variable starts as %s" % (show_term(v) if v else "unset"))
    ck.floor(pfx + "-R1", "loop entries of run", len(info["entry"]), 1)
    # R3-R5 per back-edge path
    n = 0
    for i, x in enumerate(rs.exits):
        if x.kind != "backedge":
            continue
        d = rs.classify(x)
        if not d.get("has_parse"):
            continue
        n += 1
        desc = rs.describe(d)
        actual = x.env.get(rs.path_id)
        head = rs.path_arg
        # expected values over the sub-cases consistent with this path
        expected = []
        if d.get("parse_err"):
            expected.append(("root", "a faulty message was skipped up to its terminator"))
        elif d.get("parse_err") is None:
            expected.append(("undetermined", "path does not determine the parse result"))
        else:
            somes = [True, False] if d.get("call_some") is None else [d["call_some"]]
            for cs in somes:
                if not cs:
                    expected.append(("root", "no unit was returned: a terminator was consumed"))
                    continue
                terms = [True, False] if d.get("terminated") is None else [d["terminated"]]
                for tm in terms:
                    if tm:
                        expected.append(("root", "unit ended by the message terminator"))
                        continue
                    hs = [True, False] if d.get("header_some") is None else [d["header_some"]]
                    for h in hs:
                        expected.append(("header", "unterminated compound unit") if h else ("same", "unterminated common command"))
        for (want, why) in expected:
            if want == "root":
                ok = actual is not None and is_root(actual)
            elif want == "header":
                ok = actual == rs.hdrv
            elif want == "same":
                ok = actual == head
            else:
                ok = False
            ck.judge(ok, (pfx + "-R3") if want == "root" else (pfx + "-R4"), "run:path[%s]:%s" % (desc, want),
                     "path variable at back-edge is %s (%s)" % (show_term(actual), why),
                     "path variable at the back-edge is `%s` but must be %s: %s" % (show_term(actual) if actual else "?", {"root": "self.root_node()", "header": "the unit's parent header", "same": "unchanged"}.get(want, want), why),
                     str(x.effects[-1][-1]) if x.effects else None,
                     data={"path": pathsum.show_exit(x)[:2000]})
    ck.floor(pfx + "-R3", "loop-body paths of run reaching the back-edge", n, 4)


# ---------------------------------------------------------------- C02-P
def pos(t, H, ROOTP):
    """Symbolic tree position of a node-valued term: 'Root', 'H', ('child', p), or None."""
    if t == H:
        return "H"
    if t == ROOTP:
        return "Root"
    if t[0] == "payload" and t[2] == SOME:
        inner = t[1]
        if inner[0] == "call" and inner[1] == CHILD:
            p = pos(inner[2][0], H, ROOTP)
            return ("child", p) if p is not None else None
    if t[0] == "loopvar":
        return ("var", t[2])
    return None


def rule_P(ck, lib):
    exits, ps = ctx.summarize(lib, COMPOUND, ck, closure=True)
    if not ck.anchor("C02-P", COMPOUND, exits):
        return
    b = lib.body(COMPOUND)
    pnames = [p.get("name") for p in b["params"]]
    if COMPOUND in ctx.curried_roles(lib):
        pnames = pnames[:-1]        # uncurried form: the last parameter is the input
    if not ck.judge(len(pnames) == 2, "C02-P", "compound:params", "parameters (root, header): %s" % pnames, "unexpected parameters %s" % pnames):
        return
    ROOTP, H = ("param", pnames[0]), ("param", pnames[1])
    INP = [("param", ctx.parser_input(lib, COMPOUND))]

    def colon_state(x):
        """was the optional leading separator present on this path? True/False/None(not on path / loop body)"""
        for c in x.conds:
            if c[0] == "is" and c[2] == SOME and is_colon_flag(c[1]):
                return c[3]
            # the separator tried directly: header_separator(input) is Ok / is not Ok
            if c[0] == "is" and c[2] == OK and c[1][0] == "call" and c[1][1] == HSEP and c[1][2] and c[1][2][-1] == INP[0]:
                return c[3]
        return None

    n_ok = 0
    n_back = 0
    for i, x in enumerate(exits):
        if x.kind == "backedge":
            # inductive step: body maps (node, header) at head to (child(node), node)
            n_back += 1
            lv = {t[2]: t for t in ps.loops[x.extra]["vars"].items()} if False else None
            vars_ = ps.loops[x.extra]["vars"]
            ids = {name: lid for lid, name in vars_.items()}
            # identify node/header locals by role: the returned tuple at the Ok exit names them (below);
            # here we simply check every (a,b) such that a' = child(a), b' = a
            new_vals = {name: x.env.get(lid) for name, lid in ids.items()}
            heads = {name: ("loopvar", lid, name, x.extra) for name, lid in ids.items()}
            stepped = [(n1, n2) for n1 in heads for n2 in heads if n1 != n2
                       and pos_child_of(new_vals[n1], heads[n1]) and new_vals[n2] == heads[n1]]
            ck.judge(len(stepped) >= 1, "C02-P", "compound:loop-step#%d" % n_back,
                     "loop body maps (node, header) to (child(node), node): %s" % stepped,
                     "loop body does not keep `header = parent(node)`: new values %s" % {k: show_term(v) for k, v in new_vals.items()},
                     data={"path": pathsum.show_exit(x)[:1500]})
            continue
        if x.kind not in ("return",):
            continue
        v = x.value
        if not (v[0] == "ctor" and v[1] == OK):
            continue
        n_ok += 1
        import parsefields
        tup = v[2][0]
        lay = parsefields.header_layout(tup[1][1]) if tup[0] == "tuple" and len(tup[1]) == 2 else None
        node_t, hdr_t = (lay[0], lay[1]) if lay else (None, None)
        # Ok((input, (node, Some(header))))
        if hdr_t is None or not (hdr_t[0] == "ctor" and hdr_t[1] == SOME):
            ck.bad("C02-P", "compound:ok-exit#%d:shape" % n_ok, "Ok value is not (input, (node, Some(header))): %s" % show_term(v))
            continue
        hdr_t = hdr_t[2][0]
        colon = colon_state(x)
        if node_t[0] == "loopvar" and hdr_t[0] == "loopvar":
            # exit from the loop head: invariant must hold at the head -> check the entry states
            site = node_t[3]
            for st in ps.loops[site]["entry"]:
                en = st.env.get(node_t[1])
                eh = st.env.get(hdr_t[1])
                pn, ph = pos(en, H, ROOTP), pos(eh, H, ROOTP) if eh is not None else "H"
                # which start: did this entry state see the colon?
                col = None
                for c in st.conds:
                    if c[0] == "is" and c[2] == SOME and is_colon_flag(c[1]):
                        col = c[3]
                    if c[0] == "is" and c[2] == OK and c[1][0] == "call" and c[1][1] == HSEP and c[1][2] and c[1][2][-1] == INP[0]:
                        col = c[3]
                start = "Root" if col else "H"
                okk = pn == ("child", start) and ph == start
                ck.judge(okk, "C02-P", "compound:entry[colon=%s,node=%s]" % (col, pn),
                         "at loop entry node=%s header=%s (start %s)" % (pn, ph, start),
                         "leading colon %s: loop is entered with node at %s but returned header at %s - the header must be the parent of the node (%s)"
                         % ("present" if col else "absent", pn, ph, start),
                         data={"entry_node": show_term(en), "entry_header": show_term(eh) if eh else None})
        else:
            pn, ph = pos(node_t, H, ROOTP), pos(hdr_t, H, ROOTP)
            start = "Root" if colon else "H"
            okk = pn is not None and pn == ("child", ph)
            ck.judge(okk, "C02-P", "compound:ok-exit#%d" % n_ok, "returns node %s with header %s" % (pn, ph),
                     "returned header %s is not the parent of returned node %s" % (ph, pn))
    ck.floor("C02-P", "Ok exits of compound_command_program_header", n_ok, 1)
    ck.floor("C02-P", "loop-body paths of compound_command_program_header", n_back, 1)

    # start node: root iff colon -- check the first child lookup's receiver per colon state
    # common command header: returns None as path, looks up under root
    cexits, cps = ctx.summarize(lib, COMMON, ck, closure=True)
    if ck.anchor("C02-P", COMMON, cexits):
        cb = lib.body(COMMON)
        croot = ("param", cb["params"][0].get("name"))
        n = 0
        for x in cexits:
            if x.kind in ("return", "err") and x.value[0] == "ctor" and x.value[1] == OK:
                n += 1
                import parsefields
                tup = x.value[2][0]
                lay = parsefields.header_layout(tup[1][1]) if tup[0] == "tuple" and len(tup[1]) == 2 else None
                node_t, hdr_t = (lay[0], lay[1]) if lay else (("lit", "str", "?"), ("lit", "str", "?"))
                ok = hdr_t == ("ctor", NONE, ()) and pos(node_t, ("param", "__none__"), croot) == ("child", "Root")
                ck.judge(ok, "C02-P", "common:ok-exit#%d" % n, "common header returns (child(Root), None)",
                         "common header returns node %s / path %s (must be a child of the root and no path)" % (show_term(node_t), show_term(hdr_t)))
        ck.floor("C02-P", "Ok exits of common_command_program_header", n, 1)


def is_colon_flag(t):
    """t is the Option produced by `optional(header_separator)(input)`: tproj(payload(apply(optional(header_separator)), Ok), 1)"""
    if not (t[0] == "tproj" and t[2] == 1 and t[1][0] == "payload" and t[1][2] == OK):
        return False
    a = t[1][1]
    if a[0] != "apply":
        return False
    f = a[1]
    return f[0] == "call" and f[1] == "microscpi::parser::optional" and f[2] and f[2][0] == ("fn", HSEP)


def pos_child_of(new, head):
    """new == child(head) i.e. payload(Node::child(head, _), Some)"""
    return (isinstance(new, tuple) and new and new[0] == "payload" and new[2] == SOME and new[1][0] == "call"
            and new[1][1] == CHILD and new[1][2][0] == head)


# ---------------------------------------------------------------- C02-S (ASYNC-1/2)
def rule_S(ck, lib):
    async_rules(ck, lib, "C02-S")


def async_rules(ck, lib, rid):
    """ASYNC-1: every expression of a future type is the direct operand of `.await`.
    ASYNC-2: no Future impl, nothing from core::task / core::future::poll_fn etc."""
    n = 0
    for b in lib.facts["bodies"]:
        root = b["value"]
        pm = None
        for x in hir.walk(root):
            if x.get("k") in ("Call", "MethodCall"):
                ty = x.get("ty", "")
                if ty.startswith("impl core::future::Future") or ty.startswith("impl Future") or "{async fn body" in ty or "core::future::" in ty:
                    if pm is None:
                        pm = ctx.parent_map(root)
                    n += 1
                    par = pm.get(id(x))
                    ck.judge(par is not None and par.get("k") == "Await", rid, "%s:await#%d:%s" % (b["def"], n, (hir.callee(x) or "?").split("::")[-1]),
                             "future `%s` awaited in place" % hir.show(x)[:120],
                             "future-valued call `%s` is not awaited in place (parent %s)" % (hir.show(x)[:160], par.get("k") if par else None), hir.loc(x))
    ck.floor(rid, "future-valued calls in the library", n, 50)
    bad = []
    for it in lib.facts["items"]:
        if it.get("k") == "Impl" and it.get("trait", "").startswith("core::future"):
            bad.append(it["path"])
    for m in lib.facts["mir"]:
        for blk in m["blocks"]:
            t = blk["term"]
            if t["k"] == "Call" and t.get("callee") and not t.get("exp"):
                c = t["callee"]
                if c.startswith("core::task::") or "poll_fn" in c or c.startswith("core::future::ready") or "Waker" in c:
                    bad.append("%s calls %s" % (m["def"], c))
    ck.judge(not bad, rid, "crate:no-hand-written-futures", "no Future impl and no use of core::task in the library",
             "hand-written future machinery: %s" % bad[:5])


# ---------------------------------------------------------------- C02-H
HEADER = "microscpi::parser::command_program_header"


def rule_H(ck, lib):
    """A header is resolved in exactly two ways: as a compound header relative to (root, current path), and - only if
    that fails - as a common command under the root. No other lookup (e.g. a silent retry from the root) exists."""
    ex, ps = ctx.summarize(lib, HEADER, ck, closure=True)
    if not ck.anchor("C02-H", HEADER, ex):
        return
    b = lib.body(HEADER)
    pn = [p.get("name") for p in b["params"]]
    root, hdr = ("param", pn[0]), ("param", pn[1])
    inp = ("param", ctx.parser_input(lib, HEADER))
    n = 0
    for i, x in enumerate(ex):
        apps = []
        for e in x.effects:
            if e[0] == "apply" and e[1][0] == "call":
                apps.append((e[1][1].split("::")[-1], e[1][2], e[2], ("apply",) + tuple(e[1:])))
        names = [a[0] for a in apps]
        n += 1
        ok = False
        why = "applies %s" % names
        if names[:1] == ["compound_command_program_header"] and apps[0][1] == (root, hdr) and apps[0][2] == (inp,):
            first_ok = ps.decided(pathsum.St(x.conds), apps[0][3], OK)
            if len(apps) == 1 and first_ok is not False:
                ok = True
            elif len(apps) == 1 and first_ok is False and x.kind in ("return", "err") and x.value is not None and x.value[0] == "ctor" and x.value[1] == ERR:
                ok = True       # the compound lookup failed and nothing else is tried
            elif len(apps) == 2 and first_ok is False and names[1] == "common_command_program_header" and apps[1][1] == (root,) and apps[1][2] == (inp,):
                ok = True
            else:
                why = "after the compound header (%s) it applies %s with %s" % ({True: "ok", False: "failed", None: "?"}[first_ok], names[1:], [[show_term(t) for t in a[1]] for a in apps[1:]])
        elif names == ["common_command_program_header"] and apps[0][1] == (root,) and apps[0][2] == (inp,):
            ok = True       # the alternative chosen at once (by the first byte): still one of the two lookups, with the root
        elif not apps and x.kind in ("return", "err") and x.value is not None and x.value[0] == "ctor" and x.value[1] == ERR:
            ok = True       # no lookup at all and no header (end of input)
        else:
            why = "first alternative is %s%s" % (names[:1], [show_term(t) for t in apps[0][1]] if apps else "")
        # a header that is not a common command and does not resolve is an *undefined header*, whatever the compound parser
        # stumbled over (an empty level, a byte that is no mnemonic): its failure is never handed on as it is
        v_ = pathsum.strip_sites(x.value) if x.value is not None else None
        raw = (v_ is not None and v_[0] in ("apply", "call") and apps and v_ == pathsum.strip_sites(apps[0][3]) and names[:1] == ["compound_command_program_header"]
               and ps.decided(pathsum.St(x.conds), apps[0][3], OK) is not True)
        ck.judge(not raw, "C02-H", "command_program_header:path#%d:undefined" % n, "a failure of the compound lookup ends in the common lookup's verdict or in UndefinedHeader",
                 "the result of compound_command_program_header is returned as it is: a malformed level (`SOUR::VOLT`, `SOUR:*IDN?`) is reported with the parser's error (-101) instead of Undefined header (-113)")
        ck.judge(ok, "C02-H", "command_program_header:path#%d" % n, "compound(root, path) first, common(root) only on its failure",
                 "the header is also looked up another way: %s" % why, data=pathsum.show_exit(x)[:1200])
    ck.floor("C02-H", "paths of command_program_header", n, 2)
    rule_H2(ck, lib, "C02-H")


def rule_H2(ck, lib, rid):
    """... and `parse` itself resolves the header of a unit once, relative to its own (root, path) arguments: no path of
    parse applies a header parser a second time or with another context (a retry from the root would make a header that is
    undefined where it stands select a handler)."""
    PARSE = "microscpi::parser::parse"
    ex, ps = ctx.summarize(lib, PARSE, ck)
    if not ck.anchor(rid, PARSE, ex):
        return
    b = lib.body(PARSE)
    pn = [p.get("name") for p in b["params"]]
    if not ck.judge(len(pn) == 3, rid, "parse:params", "parse(root, path, input)", "unexpected parameters of parse: %s" % pn):
        return
    want = (("param", pn[0]), ("param", pn[1]))
    n = 0
    worst = None
    for x in ex:
        apps = []
        for e in x.effects:
            if e[0] == "apply" and e[1][0] == "call" and e[1][1].split("::")[-1] in ("command_program_header", "compound_command_program_header", "common_command_program_header"):
                apps.append((e[1][1].split("::")[-1], tuple(pathsum.strip_sites(t) for t in e[1][2])))
        if not apps:
            continue
        n += 1
        okp = len(apps) == 1 and (apps[0][1] == want or (apps[0][0] == "common_command_program_header" and apps[0][1] == want[:1]))
        if not okp and worst is None:
            worst = (apps, x)
    ck.judge(worst is None, rid, "parse:header-once", "every path of parse resolves the header once, with parse's own (root, path)",
             "parse resolves a header %s: a header that is undefined relative to the current path is looked up again / elsewhere"
             % ([(a, [show_term(t) for t in c]) for a, c in worst[0]] if worst else ""), data=pathsum.show_exit(worst[1])[:1500] if worst else None)
    ck.floor(rid, "paths of parse that resolve a header", n, 4)
