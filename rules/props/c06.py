"""C06 - a faulty message is reported once and never affects later messages."""
import bytecls
import ctx
import hir
import pathsum
import runsum
from pathsum import ERR, NONE, OK, SOME, show_term, strip_sites

RERUN_ON_CONFIGS = ("dfm", "std")
LEVEL = "other"
RULE_TEXT = ("C06-ST: no body of the library names a static that can change at run time (memory of earlier messages; rule C12-P). C06-R: per loop-body path of Interface::run - Incomplete: no report, input returned unchanged; other parse "
             "error: exactly one handle_error(From(error)) and the next input starts after the faulty message's "
             "terminator (or is empty), never at the faulty bytes; execution error: exactly one handle_error with the "
             "payload of execute's Err, unchanged; success: none; at most one report per path; input' = remainder. "
             "C06-V: the error travels from execute_command through execute by `?` with identity conversion only. "
             "C06-S: the only state carried across run's back-edge is (input, path); across process's back-edges the "
             "buffers and the two offsets. C06-O/C06-A (witness interfaces): in generated arms nothing fallible follows "
             "the handler call and the handler's error is propagated by `?` unchanged."
             " C06-C03V/C03N: the conversion rules and the argument-vector rule of C03 (no wrapping or truncating conversion, no discarded push)."
             " C06-T/C06-D: on every witness interface the emitted trie accepts exactly the declared spellings and the dispatcher has one arm per declaration (rules C01-T/D) - an undefined header is a fault. C06-F: `no call` only for an empty message."
             " C06-N: every recogniser that can itself run across a newline (take_while over a class containing 10, slice by a data value) delivers Value::String or Value::Arbitrary - a complete message is never answered Incomplete."
             " C06-C01M: a mnemonic that no key equals is undefined - the whole-name lookup rule C01-M."
             " C06-K: the buffer discipline of process (K1-K8): a response buffer per message, bytes unchanged.")

PROCESS = "microscpi::interface::Interface::process"
EXECUTE = runsum.EXECUTE
EXECMD = "microscpi::interface::Interface::execute_command"
POSITION = "core::iter::traits::iterator::Iterator::position"


def newline_closure(ps, lib, t):
    return bytecls.denote_term(t, ps, lib) == frozenset([10])


def skips_message(v, inp, x, ps, lib):
    """Is v (next input) derived from `inp` so that the bytes up to and including the first newline are gone?
    Accepted forms (enumerated idioms):
      * an empty slice (literal `&[]`, `&[][..]`), when no newline was found or unconditionally;
      * inp[p + 1 ..] with p = inp.iter().position(|b| b == b'\\n') on the Some path."""
    if v is None:
        return False, "no value"
    # the faulty message has no terminator in the input (outside the statement: not a complete message)
    for c in x.conds:
        if c[0] == "is" and c[2] == SOME and c[3] is False and c[1][0] == "call" and c[1][1].endswith("::position") and len(c[1][2]) == 2:
            it, cl = c[1][2]
            if it[0] == "call" and it[1].endswith("::iter") and it[2][0] == inp and newline_closure(ps, lib, cl):
                return True, "no terminator in the input: the unterminated tail is outside the statement"
    if is_empty_slice(v):
        return True, "continues with an empty slice"
    start = None
    if v[0] == "index" and v[1] == inp:
        r = v[2]
        if r[0] == "struct" and r[1].endswith("RangeFrom"):
            start = dict(r[2]).get("start")
    elif v[0] == "tproj" and v[2] == 1 and v[1][0] == "call" and v[1][1].endswith("::split_at") and len(v[1][2]) == 2 and v[1][2][0] == inp:
        start = v[1][2][1]          # inp.split_at(p + 1).1
    if start is not None:
        if True:
            if start and start[0] == "bin" and start[1] == "Add":
                a, b = start[2], start[3]
                if b == ("lit", "int", 1) and is_newline_pos(a, inp, ps, lib):
                    return True, "continues at position(newline)+1"
                if a == ("lit", "int", 1) and is_newline_pos(b, inp, ps, lib):
                    return True, "continues at 1+position(newline)"
    return False, "next input `%s` is not recognisably past the faulty message's terminator" % show_term(v)


def is_newline_pos(p, inp, ps, lib):
    if p[0] == "payload" and p[2] == SOME:
        c = p[1]
        if c[0] == "call" and c[1].endswith("::position") and len(c[2]) == 2:
            it, cl = c[2]
            if it[0] == "call" and it[1].endswith("::iter") and it[2][0] == inp and newline_closure(ps, lib, cl):
                return True
    return False


def is_empty_slice(v):
    if v[0] == "array" and not v[1]:
        return True
    if v[0] == "index" and v[1][0] == "array" and not v[1][1]:
        return True
    return False


def run(ck):
    ck.trust("rustc HIR/typeck", "factdump", "pathsum")
    ck.assume("messages contain no newline other than their terminator (statement of C06)")
    lib = ctx.lib(ck)
    if lib is None:
        return
    if not rule_R(ck, lib, "C06-R"):
        return
    rule_rest(ck, lib)
    # an unconvertible parameter or a surplus parameter is a fault of the unit: the conversions fail instead of wrapping
    # or truncating, and the argument vector refuses what does not fit (the rules of C03, necessary here as well)
    import c03
    with ck.under("C03-", "C06-C03"):
        c03.rule_V(ck, lib)
        c03.rule_N(ck, lib)
    # a header in the wrong form (query on a command-only node) and an empty unit are faults too: no handler runs and the
    # fault is reported (the slot rule of C01 and the `no call only for an empty message` rule of C02)
    import c01
    import parsefields
    import skeleton
    with ck.under("C01-", "C06-C01"):
        c01.rule_X(ck, lib)
        # ... and a header with a mnemonic that no key equals is undefined: the run-time lookup matches whole names only
        c01.rule_M(ck, lib)
    parsefields.check(ck, lib, skeleton.Skeleton(ck, lib), "C06-F", ("empty",))
    # a header that no declaration spells is a fault: the emitted trie accepts exactly the declared spellings (C01-T/D on
    # the witness interfaces)
    c01.rule_T(ck, T="C06-T", D="C06-D")
    # a complete message (one that leaves no string or block open) is never answered Incomplete: nothing but the string
    # and block recognisers can consume the terminator byte
    import c08
    c08.rule_N(ck, lib, skeleton.Skeleton(ck, lib), "C06-N")
    # "... both when the messages are passed to run in one buffer and when they arrive through process": process gives
    # every message a response buffer of its own and its bytes unchanged (the K-rules of C07)
    import c07
    c07.rule_K(ck, lib, "C06-K")
    # "as if the faulty message had never been sent": besides the loop-carried locals of run and process (C06-S) the library
    # keeps no memory in a static that can change at run time (rule C12-P)
    import c12
    c12.rule_STATE(ck, lib, "C06-ST")


def rule_R(ck, lib, RID):
    """Per loop-body path of run: who is reported, when, and where the input continues."""
    rs = runsum.RunSummary(ck, lib)
    if not rs.ok:
        return False
    inp = rs.input_arg
    n_paths = 0
    seen = set()
    for i, x in enumerate(rs.exits):
        d = rs.classify(x)
        if not d.get("has_parse"):
            continue
        n_paths += 1
        desc = rs.describe(d)
        key = "run:path[%s]:%s" % (desc, x.kind)
        if key in seen:
            key += "#%d" % i
        seen.add(key)
        hs = d["handle_calls"]
        where = str(x.extra) if x.extra else None
        data = {"path": pathsum.show_exit(x)[:2500]}
        nxt = x.value if x.kind == "return" else x.env.get(rs.input_id)
        if d.get("parse_err") is None:
            ck.bad(RID, key, "path does not determine whether parse succeeded", where, data)
            continue
        if d["parse_err"]:
            if d.get("incomplete"):
                ok = not hs and x.kind in ("return", "err") and x.value == inp
                ck.judge(ok, RID, key, "Incomplete: silent, returns the input unchanged",
                         "Incomplete path must report nothing and return the input unchanged (reports: %d, exit: %s %s)" % (len(hs), x.kind, show_term(x.value) if x.value else ""), where, data)
            elif d.get("incomplete") is False:
                ok2, why = skips_message(nxt, inp, x, rs.ps, lib)
                ok1 = len(hs) == 1 and is_converted(hs[0][2][-1], rs.errp)
                if not hs and ok2 and why.startswith("no terminator in the input") and x.kind == "return" and nxt == inp:
                    # the faulty message is not complete yet (outside the statement): handing it back unreported, to be
                    # reported when its terminator is there, is as good as reporting it now
                    ok1 = True
                ck.judge(ok1, RID, key + ":report", "exactly one handle_error(Error::from(parse error))" if hs else "unterminated faulty tail handed back unreported",
                         "parse-error path reports %d times%s" % (len(hs), (" with argument " + show_term(hs[0][2][-1])) if hs else ""), where, data)
                if x.kind == "return" and nxt == inp:
                    why = "returns the unadvanced input: the faulty message stays at the front of the buffer, so a streaming caller re-parses and re-reports it and later messages never run"
                ck.judge(ok2, RID, key + ":skip", why, why, where, data)
            else:
                ck.bad(RID, key, "error path does not distinguish Incomplete from other errors", where, data)
            continue
        # parse ok
        if d.get("call_some") is False:
            ck.judge(not hs, RID, key, "empty message: no report", "empty message reports an error", where, data)
        elif d.get("call_some"):
            ex = d.get("execute_calls", [])
            if not ck.judge(len(ex) == 1, RID, key + ":execute-once", "unit executed once", "unit executed %d times" % len(ex), where, data):
                continue
            et = d["execute_term"]
            if d.get("exec_err"):
                ok = len(hs) == 1 and hs[0][2][-1] == ("payload", et, ERR, 0)
                ck.judge(ok, RID, key + ":report", "exactly one handle_error(e) with e the payload of execute's Err, unchanged",
                         "execution-error path reports %d times%s" % (len(hs), (" with argument " + show_term(hs[0][2][-1])) if hs else ""), where, data)
            elif d.get("exec_err") is False:
                ck.judge(not hs, RID, key + ":report", "successful unit: no report", "successful unit reports an error", where, data)
            else:
                ck.bad(RID, key, "path does not inspect execute's result", where, data)
        if x.kind == "backedge":
            ck.judge(nxt == rs.rem, RID, key + ":advance", "continues with the remainder returned by parse",
                     "continues with `%s` instead of the remainder returned by parse" % show_term(nxt), where, data)
        elif x.kind == "return":
            ck.bad(RID, key + ":advance", "returns `%s` after a successfully parsed unit (later units/messages would not run)" % show_term(x.value), where, data)
    ck.floor(RID, "loop-body paths of run", n_paths, 8)

    return True


def rule_rest(ck, lib):
    rs = runsum.RunSummary(ck, lib)
    # ---- C06-V: execute propagates execute_command's error unchanged
    exits, ps = ctx.summarize(lib, EXECUTE, ck)
    if ck.anchor("C06-V", EXECUTE, exits):
        n = 0
        for x in exits:
            cmds = [e for e in x.effects if e[0] == "call" and e[1] == EXECMD]
            if not cmds:
                continue
            ct = ("call",) + cmds[0][1:]
            if ps.decided(pathsum.St(x.conds), ct, OK) is False:
                n += 1
                ok = x.kind in ("return", "err") and x.value == ("ctor", ERR, (("payload", ct, ERR, 0),))
                ck.judge(ok, "C06-V", "execute:handler-error-path#%d" % n, "execute returns Err(e) with e unchanged",
                         "execute does not return the handler's error unchanged: %s %s" % (x.kind, show_term(x.value)), data={"path": pathsum.show_exit(x)[:1500]})
                later = [e for e in x.effects if e[0] == "call" and x.effects.index(e) > x.effects.index(cmds[0])]
                ck.judge(not later, "C06-V", "execute:handler-error-path#%d:nothing-after" % n, "no effect after the failed command",
                         "calls after the failed command: %s" % [e[1] for e in later])
        ck.floor("C06-V", "error paths of execute", n, 2)

    # ---- C06-H: the path context after a faulty unit is the one a faultless unit would have left (so the units after it and
    # the following messages are resolved as if the fault had not happened)
    import c02
    c02.rule_R(ck, lib, pfx="C06-H")
    # ---- C06-A: generated arms refuse a wrong parameter count / unconvertible parameter before calling the handler
    import c03
    c03.rule_A(ck, A="C06-A", N="C06-N")

    # ---- C06-S: state inventory
    vars_ = rs.ps.loops.get(rs.loop_site, {}).get("vars", {})
    want = {rs.path_id, rs.input_id}
    ck.judge(set(vars_) == want, "C06-S", "run:loop-carried-state", "loop-carried locals of run: %s" % sorted(vars_.values()),
             "run carries state other than (input, path) across messages: %s" % sorted(vars_.values()))
    pex, pps = ctx.summarize(lib, PROCESS, ck)
    if ck.anchor("C06-S", PROCESS, pex):
        allv = {}
        for site, info in pps.loops.items():
            allv.update(info["vars"])
        names = sorted(set(allv.values()))
        # inventory by type: byte buffers and usize offsets only (their values are pinned by the C07-K rules); anything
        # else - a flag, an Option, an error value - would be memory of earlier messages
        tys = {}
        # the loop-carried locals may live in a private helper that process delegates to (evaluated in place)
        owners = {i.rsplit(".", 1)[0] for i in allv}
        nodes = []
        for b_ in lib.facts["bodies"]:
            if b_["def"] in owners or b_["def"] == PROCESS:
                nodes += list(hir.walk(b_["value"]))
                for p_ in b_["params"]:
                    if p_.get("k") == "Bind" and p_.get("id") in allv:
                        tys[p_["id"]] = p_.get("ty", "?").replace("&mut ", "").replace("&", "")
        for xn in nodes:
            if xn.get("k") == "Block":
                for st_ in xn["stmts"]:
                    if st_["k"] == "Let":
                        for pn in hir.walk_pat(st_["pat"]) if hasattr(hir, "walk_pat") else [st_["pat"]]:
                            if pn.get("k") == "Bind" and pn.get("id") in allv:
                                tys[pn["id"]] = pn.get("ty", "?")
        # a field of a private struct that holds the offsets: typed by what it is initialised with at loop entry
        for site_, info_ in pps.loops.items():
            for st_ in info_["entry"]:
                for i_ in allv:
                    v_ = st_.env.get(i_)
                    if i_ not in tys and "." in i_.rsplit("::", 1)[-1] and isinstance(v_, tuple) and v_[:2] == ("lit", "int"):
                        tys[i_] = "usize"
        import re
        odd = sorted("%s: %s" % (allv[i], tys.get(i, "?")) for i in allv
                     if not (tys.get(i) == "usize" or re.match(r"\[u8; \w+\]$", tys.get(i, "")) or re.match(r"heapless::(vec::)?Vec<u8, \w+>$", tys.get(i, ""))))
        n_buf = len([i for i in allv if tys.get(i) != "usize"])
        ck.judge(not odd and n_buf == 2, "C06-S", "process:loop-carried-state", "loop-carried locals of process: %s" % sorted("%s: %s" % (allv[i], tys.get(i)) for i in allv),
                 "process carries state across iterations other than the command buffer, the response buffer and usize offsets: %s" % (odd or names))


def is_converted(arg, errp):
    """arg is Error::from(parse_error) / parse_error.into()"""
    if arg[0] == "call" and arg[2] and arg[2][0] == errp:
        n = arg[1]
        return n.endswith("::into") or n.endswith("::from")
    return False
