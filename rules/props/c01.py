"""C01 - a header selects a handler iff it spells the declared short/long forms."""
import os

import ctx
import hir
import pathsum
import witness
from pathsum import ERR, NONE, OK, SOME, show_term, strip_sites

RERUN_ON_CONFIGS = ("dfm", "std")
LEVEL = "translation_validation"
RULE_TEXT = ("C01-W also: on every accepting path of the compound header parser the returned remainder is the input on which the header separator was tried and refused (the walk ends only where no level follows). C01-T: for every witness interface (hand-designed families + VERIF_SEED-generated declaration sets, all "
             "compiled through the real macro of the current tree, never run) the language of the emitted Node trie - "
             "every (spelling path, kind) -> handler - equals, as a finite map, the language computed by an independent "
             "oracle from the declarations (short/long/optional/query rule of the statement; standard commands iff "
             "requested); sibling keys distinct ignoring case, no unreachable static, root slots empty. C01-D: one "
             "dispatcher arm per declaration calling exactly its handler, wildcard -> UndefinedHeader. C01-M/W/X: "
             "Node::child compares whole names with eq_ignore_ascii_case and returns that element's node; the header "
             "parsers hand each whole mnemonic to child and leave with UndefinedHeader on None; execute picks the "
             "query/command slot by the query flag, refuses an empty slot with UndefinedHeader and otherwise calls "
             "execute_command exactly once; C01-Q: the call parse returns has query = `?` consumed behind the header and "
             "node = the node the header parser returned."
             " C01-PR: the contracts of the parser combinators the skeleton builds on are read from their bodies - satisfy (accept first byte iff pred / soft error / Incomplete on empty), take_while (never fails; longest prefix, position() form or counting-loop form), optional (never fails; Some(value) or input untouched), tag(b) = satisfy(== b)."
             " C01-H: parse resolves the header of a unit once, with its own (root, path) arguments (no retry from the root)."
             " C01-F: parse skips a unit (`no call`) only for an empty message."
             " C01-C09Q: every error handed to the queue is stored - none dropped or merged with its predecessor (the push rule of C09)."
             " C01-C02H: the header rules of C02 (two lookups only; a failed compound lookup is never handed on raw, so an unresolvable header is Undefined header).")

CHILD = "microscpi::tree::Node::child"
EXECUTE = "microscpi::interface::Interface::execute"
EXECMD = "microscpi::interface::Interface::execute_command"
UNDEF = "microscpi::error::Error::UndefinedHeader"
EQIC = "core::str::eq_ignore_ascii_case"


def run(ck):
    ck.trust("rustc front end", "factdump", "the oracle in witness/specs.py (independent of the macro)", "pathsum")
    ck.assume("declaration sets outside the witness families are covered only by the structural rules on the runtime")
    lib = ctx.lib(ck)
    if lib is None:
        return
    rule_M(ck, lib)
    rule_X(ck, lib)
    rule_W(ck, lib)
    import c02
    c02.rule_H2(ck, lib, "C01-H")
    # a header that does not resolve is reported as Undefined header (-113), whatever the compound parser stumbled over
    with ck.under("C02-", "C01-C02"):
        c02.rule_H(ck, lib)
    # ... and a unit is skipped (`no call`) only when the message is empty: an accepted empty unit in the middle of a
    # message makes run reset the path, so the header behind it selects a root-level handler
    import parsefields
    import skeleton
    parsefields.check(ck, lib, skeleton.Skeleton(ck, lib), "C01-F", ("empty",))
    # "reports exactly one -113": with the library's own error handling (ErrorCommands) a report is an entry of the queue -
    # every error handed in is stored, none is dropped or merged with its predecessor (the push rule of C09)
    import c09
    with ck.under("C09-", "C01-C09"):
        c09.rule_push(ck, lib, c09.storage_place(ck, lib))
    # the node a relative header is looked up in: root at the start of every message (else a header with a missing
    # level would be accepted relative to a stale path)
    import c02
    c02.rule_R(ck, lib, pfx="C01")
    # the query mark and the addressed node reach the dispatcher as parsed
    import parsefields
    import skeleton
    sk_ = skeleton.Skeleton(ck, lib)
    parsefields.check(ck, lib, sk_, "C01-Q", ("query", "node"))
    import primitives
    primitives.check(ck, lib, sk_, "C01-PR")
    try:
        rule_S(ck)
    except Exception as ex:      # a supplementary rule never aborts the check: its clause is decided by C01-T
        ck.skip("C01-S", "engine", "supplementary rule aborted on a construct it does not read (%r); decided by C01-T" % (ex,))
    rule_T(ck)
    # C01-S reads the *shape* of the macro's spelling code (split at ':', '?', brackets, short/long, paths()); the spelling
    # clause itself is decided by translation validation (C01-T) on the witness interfaces. When C01-T and C01-D hold on
    # every witness, a mismatch of C01-S means "written in a shape this rule does not read", not "wrong": it is recorded
    # as not evaluated. When the witnesses disagree as well, C01-S stays a violation and says where the code differs.
    if not [v for v in ck.violations if v["rule"] in ("C01-T", "C01-D")]:
        keep = []
        for v in ck.violations:
            if v["rule"] == "C01-S":
                for inst in ck.instances:
                    if inst["rule"] == "C01-S" and inst["key"] == v["key"] and not inst["ok"]:
                        inst["ok"] = True
                        inst["trivial"] = True
                        inst["detail"] = "NOT EVALUATED (shape not read; the witnesses agree with the oracle): " + inst["detail"][:300]
                ck.extra.setdefault("not_evaluated", []).append({"rule": "C01-S", "site": v["key"], "why": "shape not read; spelling decided by C01-T: " + v["detail"][:200]})
            else:
                keep.append(v)
        ck.violations[:] = keep
    if ck.tier == "thorough":
        rule_T_repo(ck)


def rule_T(ck, T="C01-T", D="C01-D"):
    if getattr(ck, "cfg_rerun", False):
        return      # witness interfaces are compiled against the default configuration only
    count = 400 if ck.tier == "thorough" else 40
    fs, specs, failures = witness.build(ck, ck.seed, count)
    wit = fs.crate("wit.rlib")
    for (sp, msg) in failures:
        if sp is None:
            ck.bad(T, "witness:build", "the witness crate does not compile against the current tree:\n" + msg)
        else:
            ck.bad(T, "witness:%s:rejected" % sp["mod"], "collision-free declaration set %s (flags %s) is rejected by the current tree: %s"
                   % ([d["cmd"] for d in sp["decls"]], sp["flags"], msg))
    if fs.rc != 0 or wit is None:
        return
    enums = ctx.enums_of(wit)
    programs = 0
    disagreements = 0
    spellings = 0
    samples = []
    for spec in specs:
        programs += 1
        it = witness.Iface(wit, spec)
        m = spec["mod"]
        decls = witness.S.full_decls(spec)
        lang_spec, coll = witness.S.language(decls)
        if coll:
            ck.bad(T, "witness:%s:spec" % m, "spec has collisions (generator bug): %s" % coll[:2])
            continue
        lang, problems, seen = it.language()
        if lang is None or problems:
            ck.bad(T, "witness:%s:trie-shape" % m, "; ".join(problems)[:600])
            disagreements += 1
            continue
        unreachable = set(it.statics) - seen
        ck.judge(not unreachable, T, "witness:%s:reachable" % m, "%d statics, all reachable from the root" % len(seen),
                 "unreachable statics: %s" % sorted(unreachable)[:4])
        # id -> handler through the dispatcher
        arms = witness.Arms(it, enums)
        if not arms.ok:
            ck.bad(D, "witness:%s:execute_command" % m, "generated execute_command not found")
            continue
        id2fn = {}
        for k, xs in sorted(arms.by_arm.items()):
            hs = set()
            for x in xs:
                hc = arms.handler_calls(x)
                if x.kind in ("return", "err") and x.value == ("ctor", OK, (pathsum.UNIT,)):
                    names = [h[1] for h in hc]
                    ck.judge(len(names) == 1, D, "witness:%s:arm%d:one-handler" % (m, k), "success path calls exactly %s" % names,
                             "success path of arm %d calls %s (must be exactly its handler)" % (k, names))
                    hs.update(names)
                else:
                    hs.update(h[1] for h in hc)
            if len(hs) == 1:
                id2fn[k] = hs.pop()
            else:
                ck.bad(D, "witness:%s:arm%d:handler" % (m, k), "arm %d reaches handlers %s" % (k, sorted(hs)))
        # wildcard
        okw = bool(arms.wild) and all(x.kind in ("return", "err") and x.value == ("ctor", ERR, (("ctor", UNDEF, ()),)) and not arms.handler_calls(x) for x in arms.wild)
        ck.judge(okw, D, "witness:%s:wildcard" % m, "unknown id -> Err(UndefinedHeader), nothing called",
                 "wildcard arm: %s" % [pathsum.show_exit(x)[:200] for x in arms.wild][:2])
        ck.judge(sorted(id2fn) == list(range(len(decls))), D, "witness:%s:arm-ids" % m, "arms 0..%d" % (len(decls) - 1),
                 "dispatcher arms %s for %d declarations" % (sorted(id2fn), len(decls)))

        def want_fn(fn):
            if "::" in fn:
                return fn
            return None  # user fn: compare by last segment

        got = {}
        for key, cid in lang.items():
            f = id2fn.get(cid)
            got[key] = f
        missing = []
        extra = []
        wrong = []
        for key, fn in lang_spec.items():
            spellings += 1
            g = got.get(key)
            if g is None:
                missing.append((key, fn))
            elif not same_fn(g, fn, m):
                wrong.append((key, fn, g))
        for key in got:
            if key not in lang_spec:
                extra.append((key, got[key]))
        ok = not (missing or extra or wrong)
        if not ok:
            disagreements += 1
        detail = "%d spellings, language equal to the oracle's" % len(lang_spec)
        bad = ""
        if missing:
            bad += "spellings the declarations require but the trie lacks: %s; " % [(":".join(k[0]), k[1], f) for k, f in missing[:4]]
        if extra:
            bad += "spellings the trie accepts but no declaration spells: %s; " % [(":".join(k[0]), k[1], f) for k, f in extra[:4]]
        if wrong:
            bad += "spellings bound to the wrong handler: %s; " % [(":".join(k[0]), k[1], "want " + f, "got " + str(g)) for k, f, g in wrong[:4]]
        ck.judge(ok, T, "witness:%s:language" % m, detail, bad + "declarations: %s" % [d["cmd"] for d in decls][:10])
        rootn = it.node(it.root_static())
        if len(samples) < 6:
            samples.append({"interface": m, "declarations": [d["cmd"] for d in decls], "spellings": len(lang_spec),
                            "example": [":".join(k[0]) + ("?" if k[1] == "query" else "") + " -> " + str(v) for k, v in list(sorted(got.items()))[:5]]})
    ck.floor(T, "witness interfaces", programs, 14 + (count if count < 100 else 100))
    ck.extra.update({"programs": programs, "disagreements_checked": programs, "disagreements_found": disagreements,
                     "spellings_compared": spellings, "exhaustive_per_program": True})
    ck.extra["witness_samples"] = samples


def same_fn(got, want, mod):
    if "::" in want:
        return got == want
    return got.startswith("wit::%s::" % mod) and got.split("::")[-1] == want


# ------------------------------------------------------------------ C01-M
def rule_M(ck, lib):
    ex, ps = ctx.summarize(lib, CHILD, ck)
    if not ck.anchor("C01-M", CHILD, ex):
        return
    b = lib.body(CHILD)
    name = ("param", b["params"][1].get("name"))
    selfp = ("param", "self")
    n_some = 0
    n_none = 0
    for i, x in enumerate(ex):
        calls = [e for e in x.effects if e[0] == "call"]
        with_name = [e for e in calls if name in e[2]]
        bad_calls = [e[1] for e in with_name if e[1] != EQIC]
        v = x.value
        if x.kind == "return" and v[0] == "ctor" and v[1] == SOME:
            n_some += 1
            node = v[2][0]
            # node must be item.1 of an item whose .0 was compared with name on this path (cond true)
            ok = False
            why = "returned node %s is not the `.1` of the element whose key matched" % show_term(node)
            if node[0] == "tproj" and node[2] == 1:
                item = node[1]
                key = ("tproj", item, 0)
                for c in x.conds:
                    if c[0] == "true" and c[2] and c[1][0] == "call" and c[1][1] == EQIC and set(c[1][2]) == {key, name}:
                        ok = True
                # the element ranges over self.children
                src_ok = item[0] == "iter_item" and (item[1] == ("field", selfp, "children") or
                                                      (item[1][0] == "call" and item[1][1].endswith("::iter") and item[1][2] == (("field", selfp, "children"),)))
                if ok and not src_ok:
                    ok = False
                    why = "the matched element does not range over self.children: %s" % show_term(item)
            ck.judge(ok and not bad_calls, "C01-M", "child:found#%d" % n_some,
                     "returns element.1 where element.0.eq_ignore_ascii_case(name) over self.children",
                     why if not ok else "name is also inspected by %s" % bad_calls, data=pathsum.show_exit(x))
        elif x.kind == "return" and v == ("ctor", NONE, ()):
            n_none += 1
            # None only when the iteration is exhausted: no positive match on this path
            pos = [c for c in x.conds if c[0] == "true" and c[2] and c[1][0] == "call" and name in c[1][2]]
            ck.judge(not pos and not bad_calls, "C01-M", "child:not-found#%d" % n_none, "None only after the whole list was scanned",
                     "returns None on a path where a key matched / name inspected by %s" % bad_calls, data=pathsum.show_exit(x))
        elif x.kind == "backedge":
            neg = [c for c in x.conds if c[0] == "true" and not c[2] and c[1][0] == "call" and c[1][1] == EQIC]
            ck.judge(len(neg) == 1 and not bad_calls, "C01-M", "child:next#%d" % i, "continues with the next element only after a failed comparison",
                     "loop continues without a failed whole-name comparison (%s)" % bad_calls, data=pathsum.show_exit(x))
        else:
            ck.bad("C01-M", "child:exit#%d" % i, "unexpected exit %s %s" % (x.kind, show_term(v) if v else ""))
    ck.floor("C01-M", "Some-returning paths of Node::child", n_some, 1)
    ck.floor("C01-M", "None-returning paths of Node::child", n_none, 1)
    # no slicing / len / starts_with on the strings anywhere in the function
    v = lib.fn_value(CHILD)
    forbidden = []
    for xn in ctx.walk_inlined(lib, v):
        c = hir.base_path(hir.callee(xn) or "")
        if xn.get("k") in ("Call", "MethodCall") and c and c != EQIC and not (xn.get("callee_kind") or "").startswith("Ctor") and "iter" not in c and "IntoIterator" not in c and "Iterator::next" not in c \
                and c not in ("core::option::Option::map", "core::option::Option::copied", "core::option::Option::cloned"):
            forbidden.append(c)
        if xn.get("k") == "Index":
            forbidden.append("index")
        if xn.get("k") == "Binary" and xn["op"] in ("Eq", "Ne") and "str" in (xn["l"].get("ty") or ""):
            forbidden.append("str ==")
    ck.judge(not forbidden, "C01-M", "child:callee-set", "only eq_ignore_ascii_case touches the names",
             "Node::child also uses %s" % forbidden)


# ------------------------------------------------------------------ C01-X
def rule_X(ck, lib):
    ex, ps = ctx.summarize(lib, EXECUTE, ck)
    if not ck.anchor("C01-X", EXECUTE, ex):
        return
    b = lib.body(EXECUTE)
    callp = ("param", b["params"][1].get("name"))
    node = ("field", callp, "node")
    q = ("field", callp, "query")
    n = 0
    for i, x in enumerate(ex):
        qv = None
        for c in x.conds:
            if c[0] == "true" and c[1] == q:
                qv = c[2]
        if qv is None:
            ck.bad("C01-X", "execute:path#%d" % i, "path does not test call.query", data=pathsum.show_exit(x))
            continue
        slot = ("field", node, "query" if qv else "command")
        other = ("field", node, "command" if qv else "query")
        some = ps.decided(pathsum.St(x.conds), slot, SOME)
        uses_other = any(c[0] == "is" and c[1] == other for c in x.conds)
        cmds = [e for e in x.effects if e[0] == "call" and e[1] == EXECMD]
        n += 1
        key = "execute:%s:%s#%d" % ("query" if qv else "command", {True: "bound", False: "empty", None: "?"}[some], i)
        if uses_other or some is None:
            ck.bad("C01-X", key, "slot selection does not follow the query flag (inspects %s)" % show_term(other if uses_other else slot), data=pathsum.show_exit(x))
        elif some is False:
            ok = x.kind in ("return", "err") and x.value == ("ctor", ERR, (("ctor", UNDEF, ()),)) and not [e for e in x.effects if e[0] == "call"]
            ck.judge(ok, "C01-X", key, "empty slot -> Err(UndefinedHeader), nothing executed", "empty slot path: %s" % pathsum.show_exit(x)[:300])
        else:
            ok = len(cmds) == 1 and cmds[0][2][0] == ("param", "self") and cmds[0][2][1] == ("payload", slot, SOME, 0) and cmds[0][2][2] == ("field", callp, "args")
            ck.judge(ok, "C01-X", key, "execute_command(slot id, call.args, response) exactly once",
                     "bound slot path calls execute_command %d times / with %s" % (len(cmds), [show_term(a) for a in cmds[0][2]] if cmds else None))
    ck.floor("C01-X", "paths of execute", n, 6)


def whole_mnemonic(src, x, sk, ps, star):
    """src is the whole text of one program mnemonic taken on this path - for `star` together with the one `*` in front
    of it: either the taken part of a program_mnemonic application itself, or a slice / split_at head of that
    application's input whose bounds are proved (Fourier-Motzkin, from the slice-length facts of the path) to be
    0 and len(taken) (+1 for the star, the slice then being one of the input of the tag(b'*') before it)."""
    import fm
    import slicelin
    from linform import Lin
    src = strip_sites(src)
    pms = []
    for (pid, inp, t, oc) in sk.apps_on_path(x, ps):
        if pid == ("fn", "microscpi::parser::program_mnemonic"):
            pms.append((strip_sites(t), strip_sites(inp)))
    for (pm, i1) in pms:
        res = ("tproj", ("payload", pm, OK, 0), 1)
        if not star and src == res:
            return "the taken part of program_mnemonic"
        base = start = end = None
        if src[0] == "index":
            k, a, b_ = slicelin.rng_parts(src[2])
            if k in ("Range", "RangeTo"):
                base, start, end = src[1], a or ("lit", "int", 0), b_
        elif src[0] == "tproj" and src[2] == 0 and src[1][0] == "call" and src[1][1].endswith("::split_at") and len(src[1][2]) == 2:
            base, start, end = src[1][2][0], ("lit", "int", 0), src[1][2][1]
        if base is None:
            continue
        if star:
            ok_base = False
            if i1[0] == "tproj" and i1[2] == 0 and i1[1][0] == "payload" and i1[1][2] == OK:
                a = sk.app(i1[1][1], ps)
                ok_base = a is not None and a[0] == ("tag", 42) and strip_sites(a[1]) == base
        else:
            ok_base = base == i1
        if not ok_base:
            continue
        sl = slicelin.SliceLin(sk, ps, base)
        f = sl.premises(x) + sl.cond_facts(x) + sl.slice_facts(res, x) + [fm.ge0(sl.ln(res))]
        want = sl.ln(res) + Lin({}, 1 if star else 0)
        if all(fm.entails(f, g) for g in fm.eq(sl.L(start), Lin()) + fm.eq(sl.L(end), want)):
            return "input[0 .. len(mnemonic)%s] (bounds proved from the slice-length facts)" % (" + 1" if star else "")
    return None


# ------------------------------------------------------------------ C01-W
def rule_W(ck, lib):
    import skeleton
    sk = skeleton.Skeleton(ck, lib)
    n_child = 0
    for fn, kind in (("microscpi::parser::compound_command_program_header", "compound"), ("microscpi::parser::common_command_program_header", "common")):
        f_ = sk.fns.get(fn)
        ex, ps = (f_["exits"], f_["ps"]) if f_ else (None, None)
        if not ck.anchor("C01-W", fn, ex):
            continue
        ck.fn(fn)
        sites = {}
        for x in ex:
            for e in x.effects:
                if e[0] == "call" and e[1] == CHILD:
                    t = ("call",) + e[1:]
                    sites.setdefault(e[3], []).append((x, t))
        for site, lst in sorted(sites.items()):
            n_child += 1
            ok_name = True
            desc = ""
            for (x0, t0) in lst:
                namearg = t0[2][1]
                # name = from_utf8(<mnemonic>)? where <mnemonic> is the whole text of one program mnemonic (with its `*`)
                why = None
                if namearg[0] == "payload" and namearg[2] == OK and namearg[1][0] == "call" and namearg[1][1].endswith("from_utf8"):
                    why = whole_mnemonic(namearg[1][2][0], x0, sk, ps, kind == "common")
                if why is None:
                    ok_name = False
                    desc = show_term(namearg)
                    break
                desc = why
            ck.judge(ok_name, "C01-W", "%s:child@%s:whole-mnemonic" % (kind, n_child), "child() receives the whole mnemonic text: %s" % desc,
                     "child() receives `%s`, not the whole text of one program mnemonic" % desc, site)
            # None -> leaves with UndefinedHeader
            okn = True
            seen_none = False
            for (x, t) in lst:
                d = ps.decided(pathsum.St(x.conds), t, SOME)
                if d is False:
                    seen_none = True
                    # Err(UndefinedHeader) as the header parsers report it: ParseError::FatalError(UndefinedHeader), written
                    # directly or reached through the library's own From<Error> impl (evaluated, not assumed)
                    want = [("ctor", "microscpi::parser::ParseError::FatalError", (("ctor", UNDEF, ()),))]
                    got = None
                    if x.kind in ("return", "err") and x.value is not None and x.value[0] == "ctor" and x.value[1] == ERR:
                        got = ctx.canon_conv(lib, x.value[2][0], "microscpi::parser::ParseError")
                    if got != want:
                        okn = False
                elif d is None:
                    okn = False
            ck.judge(okn and seen_none, "C01-W", "%s:child@%s:none-is-undefined-header" % (kind, n_child),
                     "unknown mnemonic leaves the parser with UndefinedHeader", "unknown mnemonic does not leave the header parser with Err(UndefinedHeader)", site)
    ck.floor("C01-W", "Node::child call sites in the header parsers", n_child, 2)
    # the walk ends only where no further level follows: on every accepting path of the compound header parser the
    # returned remainder is the very input on which the header separator was tried and did not match. A walk that stops
    # for another reason (a node without children, a depth limit) leaves `:LEVEL` to the caller, which reports a syntax
    # error for it, not the undefined header it is.
    fn = "microscpi::parser::compound_command_program_header"
    f_ = sk.fns.get(fn)
    n_exit = 0
    if f_ and f_["exits"]:
        ps = f_["ps"]
        seps = set()
        for x in f_["exits"]:
            apps = sk.apps_on_path(x, ps)
            # the separator recogniser: the parser tried directly in front of every program_mnemonic but the first
            for j, (pid, inp, t, oc) in enumerate(apps):
                if pid == ("fn", "microscpi::parser::program_mnemonic") and j > 0 and apps[j - 1][0] and apps[j - 1][0][0] in ("fn", "tag", "optional"):
                    q = apps[j - 1][0]
                    seps.add(q[1] if q[0] == "optional" else q)
        for x in f_["exits"]:
            r = sk.exit_result(x)
            if not r or r[0][0] != "ok" or len(r) != 1:
                continue
            n_exit += 1
            rem = strip_sites(sk.val_of(sk.rem_of(r[0][1])))
            apps = sk.apps_on_path(x, ps)
            tried = [(pid, oc) for (pid, inp, t, oc) in apps if strip_sites(sk.val_of(inp)) == rem and (pid in seps or (pid and pid[0] == "optional" and pid[1] in seps))]
            ok = any(oc is False for (pid, oc) in tried)
            ck.judge(ok, "C01-W", "compound:accept#%d:ends-where-no-level-follows" % n_exit,
                     "the header ends where the separator does not match", "the header walk stops although the separator was not tried (and refused) on the remainder it returns: a further level is left unread and reported as a syntax error instead of an undefined header",
                     data=pathsum.show_exit(x)[:1200])
        ck.floor("C01-W", "accepting paths of the compound header parser", n_exit, 1)


# ------------------------------------------------------------------ C01-S: the macro's own spelling rule
TRYFROM = "<microscpi_macros::command::Command as core::convert::TryFrom<&str>>::try_from"
PATHS = "microscpi_macros::command::Command::paths"


def rule_S(ck):
    """Structural rules on the macro crate, valid for every declaration (ASCII spellings): a declaration is split at ':',
    a trailing '?' makes it a query, `[x]` marks an optional part, short = the part's characters that are not lower
    case, long = the part upper-cased; paths() emits for every part the long form, the short form when it differs, and
    nothing when the part is optional, on top of every path built so far."""
    if getattr(ck, "cfg_rerun", False):
        return      # witness interfaces are compiled against the default configuration only
    import bytecls
    m = ctx.macros(ck)
    if m is None:
        return
    try:
        ex, ps = ctx.summarize(m, TRYFROM, ck)
    except pathsum.Unsupported as u:
        ex = None
        ck.skip("C01-S", "try_from:unsupported", "construct outside the interpreter's language: %s" % u)
    if ex is None:
        ck.skip("C01-S", "try_from:anchor", "Command::try_from not found under that name; decided by C01-T")
    else:
        b = m.body(TRYFROM)
        val = ("param", b["params"][0].get("name"))
        n_push = 0
        n_ret = 0
        for i, x in enumerate(ex):
            q = None
            sfx = None
            for c in x.conds:
                if c[0] == "is" and c[2] == SOME and c[1][0] == "call" and c[1][1].endswith("::strip_suffix") and c[1][2] == (val, ("lit", "char", 63)):
                    q = c[3]
                    sfx = c[1]
            src = ("payload", sfx, SOME, 0) if q else val
            if x.kind == "return":
                n_ret += 1
                v = x.value
                ok = q is not None and v[0] == "ctor" and v[1] == OK and v[2][0][0] == "struct" and dict(v[2][0][2]).get("query") == ("lit", "bool", q)
                ck.judge(ok, "C01-S", "try_from:query-flag[%s]" % q, "query flag is set iff the declaration ends in '?'", "query flag on the return path is %s under strip_suffix('?')=%s" % (show_term(v), q))
                continue
            if x.kind != "backedge":
                continue
            pushes = [e for e in x.effects if e[0] == "call" and e[1].endswith("::push") and e[2][1][0] == "struct"]
            it = None
            for e in x.effects:
                if e[0] == "call" and e[1].endswith("::is_empty") and e[2][0][0] == "iter_item":
                    it = e[2][0]
            empty = None
            for c in x.conds:
                if c[0] == "true" and c[1][0] == "call" and c[1][1].endswith("::is_empty") and it is not None and c[1][2] == (it,):
                    empty = c[2]
            key = "try_from:part#%d" % i
            if it is None or empty is None:
                ck.bad("C01-S", key, "loop body does not test the part for emptiness", data=pathsum.show_exit(x)[:600])
                continue
            split = it[1]
            ok_split = split[0] == "call" and split[1].endswith("::map") and split[2][1] == ("fn", "core::str::trim") and split[2][0][0] == "call" \
                and split[2][0][1].endswith("::split") and split[2][0][2] == (src, ("lit", "char", 58))
            ck.judge(ok_split, "C01-S", key + ":split", "parts = <declaration without '?'>.split(':').map(trim)", "parts come from %s" % show_term(split))
            if empty:
                ck.judge(not pushes, "C01-S", key + ":empty-skipped", "empty parts are skipped", "an empty part is pushed")
                continue
            n_push += 1
            if not ck.judge(len(pushes) == 1, "C01-S", key + ":one-part", "one CommandPart per part", "%d parts pushed" % len(pushes)):
                continue
            f = dict(pushes[0][2][1][2])
            br = {}
            for c in x.conds:
                if c[0] == "true" and c[1][0] == "call" and c[1][1].endswith(("::starts_with", "::ends_with")) and c[1][2][0] == it:
                    br[(c[1][1].split("::")[-1], c[1][2][1])] = c[2]
            bracketed = br.get(("starts_with", ("lit", "char", 91))) is True and br.get(("ends_with", ("lit", "char", 93))) is True
            plain = br.get(("starts_with", ("lit", "char", 91))) is False or br.get(("ends_with", ("lit", "char", 93))) is False
            if bracketed:
                ln = None
                inner_ok = lambda t: t[0] == "index" and t[1] == it and t[2][0] == "struct" and t[2][1].endswith("::Range") and dict(t[2][2])["start"] == ("lit", "int", 1) \
                    and pathsum.strip_sites(dict(t[2][2])["end"]) == ("bin", "Sub", ("call", "core::str::len", (pathsum.strip_sites(it),)), ("lit", "int", 1))
                want_opt = True
            elif plain:
                inner_ok = lambda t: t == it
                want_opt = False
            else:
                ck.bad("C01-S", key + ":brackets", "optional marking does not follow starts_with('[') && ends_with(']'): %s" % br)
                continue
            ck.judge(f.get("optional") == ("lit", "bool", want_opt), "C01-S", key + ":optional[%s]" % want_opt, "optional = %s" % want_opt, "optional is %s for a %s part" % (show_term(f.get("optional")), "bracketed" if want_opt else "plain"))
            lg = f.get("long")
            ok_long = lg is not None and lg[0] == "call" and lg[1].endswith("::to_uppercase") and inner_ok(lg[2][0])
            ck.judge(ok_long, "C01-S", key + ":long", "long = part.to_uppercase()", "long form is %s" % (show_term(lg) if lg else None))
            sh = f.get("short")
            ok_short = False
            cls = None
            if sh is not None and sh[0] == "call" and sh[1].endswith("::collect") and sh[2][0][0] == "call" and sh[2][0][1].endswith("::filter"):
                flt = sh[2][0]
                chars, cl = flt[2]
                if chars[0] == "call" and chars[1].endswith("::chars") and inner_ok(chars[2][0]) and cl[0] == "closure":
                    cls = bytecls.denote_closure(ps.closures.get(cl[1]), None, None, domain=128)
                    ok_short = cls == frozenset(range(128)) - frozenset(range(97, 123))
            ck.judge(ok_short, "C01-S", key + ":short", "short = the part's characters that are not lower case (ASCII: everything but a-z)",
                     "short form keeps %s of the ASCII characters; it must keep exactly those that are not a-z (digits, '_' and '*' included)" % (bytecls.show_set(cls) if cls is not None else show_term(sh) if sh else None))
        if n_push < 4 or n_ret < 2:
            ck.skip("C01-S", "try_from:shape", "Command::try_from is not the split/loop/push shape this supplementary rule reads (%d part-pushing paths, %d return paths); "
                    "the spelling rule is decided by C01-T on the witness interfaces" % (n_push, n_ret))
    try:
        ex, ps = ctx.summarize(m, PATHS, ck)
    except pathsum.Unsupported as u:
        ex = None
        ck.skip("C01-S", "paths:unsupported", "construct outside the interpreter's language: %s" % u)
    if ex is None:
        ck.skip("C01-S", "paths:anchor", "Command::paths not found under that name; decided by C01-T")
    else:
        n = 0
        for i, x in enumerate(ex):
            if x.kind != "backedge":
                continue
            heads = [e[1] for e in x.effects if e[0] == "loop_head"]
            if len(heads) < 2 or x.extra != heads[-1]:
                continue
            n += 1
            inner = heads[-1]
            after = x.after_head(inner)
            part = None
            ne = opt = None
            for c in x.conds:
                if c[0] == "true" and c[1][0] == "bin" and c[1][1] == "Ne" and c[1][2][0] == "field" and c[1][2][2] == "short" and c[1][3][0] == "field" and c[1][3][2] == "long" and c[1][2][1] == c[1][3][1]:
                    ne = c[2]
                    part = c[1][2][1]
                if c[0] == "true" and c[1][0] == "field" and c[1][2] == "optional":
                    opt = c[2]
            key = "paths:step[short!=long=%s,optional=%s]" % (ne, opt)
            if part is None or ne is None or opt is None:
                ck.bad("C01-S", key + "#%d" % i, "a step of paths() does not test short != long and optional", data=pathsum.show_exit(x)[:800])
                continue
            # pushes into the new path list, each being a clone of the current path extended (or not) by a form
            ext = {}
            got = []
            COPY = ("clone", "to_vec", "to_owned", "to_string", "into", "from")

            def copy_of(t):
                """t = copy(x) (through borrowing views) -> x"""
                t = strip_sites(t)
                if t[0] == "call" and t[1].split("::")[-1] in COPY and t[2]:
                    u = t[2][-1]
                    while u[0] == "call" and u[1].split("::")[-1] in ("as_str", "as_slice", "deref", "as_ref", "borrow") and len(u[2]) == 1:
                        u = u[2][0]
                    return u
                return None
            for e in after:
                if e[0] == "call" and e[1].endswith("::push"):
                    tgt, v = strip_sites(e[2][0]), strip_sites(e[2][1])
                    if tgt[0] == "loopvar":
                        # the path pushed into the new list: a copy of the current path with what was pushed onto it since
                        src = copy_of(v)
                        isclone = src is not None and src[0] == "iter_item"
                        forms = []
                        for a in ext.pop(v, []):
                            fsrc = copy_of(a)
                            forms.append(fsrc[2] if fsrc is not None and fsrc[0] == "field" and fsrc[1] == strip_sites(part) else "?")
                        got.append((isclone, tuple(forms)))
                    else:
                        ext.setdefault(tgt, []).append(v)
            want = [(True, ("long",))] + ([(True, ("short",))] if ne else []) + ([(True, ())] if opt else [])
            ck.judge(got == want, "C01-S", key, "every path so far is extended by %s" % [w[1] for w in want],
                     "a step of paths() extends the paths by %s, expected %s" % ([g[1] if g[0] else "not-a-clone" for g in got], [w[1] for w in want]), data=pathsum.show_exit(x)[:800])
        if n < 4:
            ck.skip("C01-S", "paths:shape", "Command::paths is not the nested-loop shape this supplementary rule reads (%d steps found); decided by C01-T" % n)


def rule_T_repo(ck):
    """C01-T on the repository's own interfaces (integration tests, bench, fuzz targets): configuration `tgt`
    (`cargo check --workspace --all-targets` under the fact extractor)."""
    fs = ctx.factset(ck, "tgt")
    if fs.rc != 0:
        ck.bad("C01-T", "tgt:build", "workspace --all-targets does not build under the extractor: %s" % fs.log[-800:])
        return
    specs = witness.repo_interfaces()
    ck.floor("C01-T", "interfaces in the repository's own targets", len(specs), 4)
    n = 0
    for spec in specs:
        # which crate: the fact file whose crate name matches the source file stem
        stem = spec["mod"]
        crates = [c for k, c in fs.crates.items() if k.split(".")[0] == stem]
        if not crates:
            ck.bad("C01-T", "tgt:%s:facts" % spec["file"], "no fact file for target %s (have %s)" % (stem, sorted(fs.crates)))
            continue
        it = None
        for c in crates:
            cand = witness.RepoIface(c, spec)
            if cand.root_fn is not None:
                it = cand
        if it is None:
            ck.bad("C01-T", "tgt:%s:interface" % spec["file"], "no Interface impl for %s found in the target's facts" % spec["type"])
            continue
        n += 1
        decls = witness.S.full_decls(spec)
        lang_spec, coll = witness.S.language(decls)
        lang, problems, seen = it.language()
        key = "tgt:%s:%s" % (spec["file"], spec["type"])
        if coll or lang is None or problems:
            ck.bad("C01-T", key + ":shape", "collisions %s / trie problems %s" % (coll[:1], problems[:2]))
            continue
        arms = witness.Arms(it, ctx.enums_of(it.crate))
        id2fn = {}
        for k, xs in arms.by_arm.items():
            hs = set()
            for x in xs:
                for e in x.effects:
                    if e[0] == "call" and (e[1].startswith("microscpi::commands::") or e[1].split("::")[-1] in [d["fn"] for d in decls]):
                        if not e[1].endswith(("::len", "::get", "::try_into")):
                            hs.add(e[1])
            if len(hs) == 1:
                id2fn[k] = hs.pop()
        got = {k: id2fn.get(v) for k, v in lang.items()}
        bad = []
        for k2, fn in lang_spec.items():
            g = got.get(k2)
            if g is None or (("::" in fn and g != fn) or ("::" not in fn and g.split("::")[-1] != fn)):
                bad.append((":".join(k2[0]), k2[1], fn, g))
        extra = [(":".join(k2[0]), k2[1]) for k2 in got if k2 not in lang_spec]
        ck.judge(not bad and not extra, "C01-T", key + ":language", "%d spellings equal to the oracle's (%d declarations)" % (len(lang_spec), len(decls)),
                 "repository interface %s: wrong/missing %s, extra %s" % (spec["type"], bad[:4], extra[:4]))
    ck.extra["repo_target_interfaces"] = n
