"""C10 - process answers before it reads on, and ends only on a transport error."""
import ctx
import hir
import pathsum
from pathsum import ERR, OK, show_term

RERUN_ON_CONFIGS = ("dfm", "std")
LEVEL = "proof"
RULE_TEXT = ("C10-C04W: the shipped writers - the response buffer of process is one - append exactly what they are given or fail, and on no path remove or overwrite what they hold (rule C04-W). C10-T: obligations over the HIR and the path summaries of the single generic body "
             "Interface::process<N, A> (holds for every N, adapter, stream, chunking and fault position): "
             "T1 every Adapter call is `.await?` with identity error conversion; T2 every function exit is the "
             "residual of such a call (no Ok, no break/return, no panic exit); T3 nothing follows the failing call; "
             "T4 typestate of the response buffer along every path segment: run -> is_empty test -> "
             "(write, flush, clear) before any read or back-edge, write only when non-empty; T5 the response buffer "
             "is used only by run/is_empty/write/clear and write's argument is that buffer."
             " C10-C04X: execute writes a terminator only after a successful query and nothing otherwise (rule C04-X)."
             " C10-K: the buffer discipline of process (rules K1-K7 of C07). C10-C01X: the handler slot follows the query flag (rule C01-X) - a header in the wrong form executes nothing and writes nothing."
             " C10-B: on every witness interface each command-form spelling that reaches a library function reaches one whose Ok type is `()` - the dispatcher writes whatever the handler returns."
             " T4 also: the response buffer is never cleared while it holds (or may hold) a response that has not been written.")

PROCESS = "microscpi::interface::Interface::process"
ADAPTER = "microscpi::interface::Adapter::"
RUN = "microscpi::interface::Interface::run"


def is_adapter_call(t):
    return isinstance(t, tuple) and t and t[0] == "call" and t[1].startswith(ADAPTER)


def run(ck):
    ck.trust("rustc HIR/typeck (resolved callees)", "factdump", "pathsum path enumeration")
    ck.assume("user Adapter/handler futures may suspend but do not panic")
    lib = ctx.lib(ck)
    if lib is None:
        return
    body = lib.fn_value(PROCESS)
    if not ck.anchor("C10-T", PROCESS, body):
        return
    ck.fn(PROCESS)
    pm = ctx.parent_map(body)

    # ---- T1 (where): transport calls occur only in process (or in local helpers that pathsum evaluates in place)
    n_adapter = 0
    for b in lib.facts["bodies"]:
        root = b["value"]
        for x in hir.walk(root):
            cal = hir.base_path(hir.callee(x) or "")
            if cal and cal.startswith(ADAPTER):
                if b.get("trait") == ADAPTER.rstrip(":"):
                    continue        # an Adapter that forwards to another Adapter (`impl Adapter for &mut A`) is a transport, not a user of one
                n_adapter += 1
                key = "%s:%s#%d" % (b["def"], cal.split("::")[-1], n_adapter)
                ck.judge(b["def"] == PROCESS or hir.base_path(b["def"]) in ctx.inline_helpers(lib), "C10-T1", key + ":where", "transport call inside process",
                         "transport call outside Interface::process in %s" % b["def"], hir.loc(x))
    ck.floor("C10-T1", "Adapter call sites", n_adapter, 3)

    # ---- path summaries
    exits, ps = ctx.summarize(lib, PROCESS, ck)
    ck.floor("C10-T2", "paths through process", len(exits), 8)
    # the response buffer: the local passed as 2nd argument to run
    res_ids = set()
    for x in exits:
        for e in x.effects:
            if e[0] == "call" and e[1] == RUN and len(e[2]) >= 3:
                t = e[2][2]
                if t[0] in ("loopvar", "local"):
                    res_ids.add(t[1])
    if not ck.judge(len(res_ids) == 1, "C10-T5", "process:res_buf", "response buffer local identified: %s" % sorted(res_ids),
                    "cannot identify a unique response buffer passed to run (found %s)" % sorted(res_ids)):
        return
    res_id = res_ids.pop()

    def is_res(t):
        return isinstance(t, tuple) and t and t[0] in ("loopvar", "local") and t[1] == res_id

    # T1 (how): on every path the result of every transport call is inspected; a failed call ends the path at once
    # with its own error, unchanged (`?`, or an explicit match returning Err(e))
    seen_sites = {}
    for i, x in enumerate(exits):
        calls = [e for e in x.effects if e[0] == "call"]
        for e in calls:
            if not e[1].startswith(ADAPTER):
                continue
            t = ("call",) + e[1:]
            d = ps.decided(pathsum.St(x.conds), t, OK)
            awaited = any(a[0] == "await" and a[1] == t for a in x.effects)
            key = "process:%s@%s" % (e[1].split("::")[-1], e[3].split(":")[-1])
            verdict = seen_sites.setdefault(key, [])
            if d is None:
                verdict.append("its result is not inspected on a path (%s)" % x.kind)
            elif d is False:
                okx = x.kind in ("err", "return") and x.value == ("ctor", ERR, (("payload", t, ERR, 0),)) and calls[-1] is e
                if not okx:
                    verdict.append("after it failed the path goes on / returns something else: %s %s" % (x.kind, show_term(x.value) if x.value else ""))
            if not awaited:
                verdict.append("not awaited")
    for key, verdict in sorted(seen_sites.items()):
        ck.judge(not verdict, "C10-T1", key, "awaited; Ok continues, Err ends process at once with that error unchanged", "transport call %s: %s" % (key, "; ".join(sorted(set(verdict)))))

    # T2/T3
    for i, x in enumerate(exits):
        key = "process:exit#%d:%s" % (i, x.kind)
        if x.kind == "backedge":
            continue
        if x.kind == "err" or (x.kind in ("return", "err") and x.value[0] == "ctor" and x.value[1] == ERR):
            v = x.value
            src = None
            if v[0] == "ctor" and v[1] == ERR and v[2] and v[2][0][0] == "payload" and is_adapter_call(v[2][0][1]):
                src = v[2][0][1]
            calls = [e for e in x.effects if e[0] == "call"]
            last = calls[-1] if calls else None
            ok = src is not None and last is not None and last[1] == src[1] and last[3] == src[3]
            ck.judge(ok, "C10-T2", "process:err-exit:%s" % (src[1].split("::")[-1] if src else "?") + "#%d" % i,
                     "returns Err(%s) unchanged, no call after the failing transport call" % (show_term(v[2][0]) if src else "?"),
                     "error exit is not the unchanged residual of the last transport call: value %s, last call %s"
                     % (show_term(v), last[1] if last else None), x.extra)
        else:
            ck.bad("C10-T2", key, "process can leave its loop by `%s` with value %s (must end only through a transport error)"
                   % (x.kind, show_term(x.value) if x.value else ""), str(x.extra))

    # entry: buffer fresh
    ok_entry = True
    for site, info in ps.loops.items():
        for st in info["entry"]:
            t = st.env.get(res_id)
            if t is not None and t[0] == "call" and t[1].endswith("::new"):
                continue
            if t is not None and t[0] == "loopvar":
                continue  # nested loop: covered by the enclosing head's hypothesis
            ok_entry = False
    ck.judge(ok_entry, "C10-T4", "process:res_buf:initially-empty", "response buffer is a fresh Vec::new() at loop entry",
             "response buffer is not a fresh empty vector at loop entry")

    response_typestate(ck, exits, res_id, "C10-T4")

    # T6: the terminator scan is left for the next read only when no terminator remains in the scanned window:
    # every path from the scan loop's head to the outer back-edge carries `position(newline) is None`
    heads = sorted(ps.loops)
    inner = [h for h in heads if any(st.env.get(res_id, ("x",))[0] == "loopvar" for st in ps.loops[h]["entry"])]
    n6 = 0
    for i, x in enumerate(exits):
        if x.kind != "backedge":
            continue
        hs = [e[1] for e in x.effects if e[0] == "loop_head"]
        if len(hs) < 2 or x.extra == hs[-1]:
            continue        # not a path from the scan loop back to the outer loop
        n6 += 1
        scan_none = any(c[0] == "is" and c[2] == pathsum.SOME and c[3] is False and c[1][0] == "call" and c[1][1].endswith("::position") for c in x.conds)
        scan_some = any(c[0] == "is" and c[2] == pathsum.SOME and c[3] is True and c[1][0] == "call" and c[1][1].endswith("::position") for c in x.conds)
        ck.judge(scan_none and not scan_some, "C10-T6", "process:scan-exit#%d" % n6, "scan loop left only when no terminator remains in the window",
                 "the terminator scan is left although a terminator was found (a complete message may stay unanswered in the buffer while process reads on)",
                 str(x.extra), data={"path": pathsum.show_exit(x)[:1500]})
    ck.floor("C10-T6", "paths from the scan loop to the next read", n6, 2)

    # T5: every operation that touches the response buffer, on any path, is one of run / is_empty / write / clear
    # (the typestate pass above reports any other use); counted here per site as a positive control of the matcher
    use_sites = set()
    for x in exits:
        for e in x.effects:
            if e[0] == "call" and any(isinstance(a, tuple) and a and a[0] in ("loopvar", "local") and a[1] == res_id for a in e[2]):
                use_sites.add((e[1].split("::")[-1], e[3]))
    bad_uses = [u for u in use_sites if u[0] not in ("run", "is_empty", "write", "clear")]
    ck.judge(not bad_uses, "C10-T5", "process:res_buf-uses", "response buffer touched only by %s" % sorted({u[0] for u in use_sites}),
             "response buffer is also used by %s" % sorted(bad_uses))
    ck.floor("C10-T5", "operations on the response buffer", len(use_sites), 4)
    # "writes nothing for a message that produced no response": what run puts into the response buffer is decided in
    # execute - a terminator only after a successful query (the rule of C04, necessary here as well)
    import c04
    with ck.under("C04-", "C10-C04"):
        c04.rule_X(ck, lib)
        # the response buffer of process is one of the shipped writers: what an earlier unit of the message has put there
        # is still there when the message is answered - a writer method appends or fails, it never takes anything away
        # (seeded C10-Z: the heapless writer clearing itself on overflow; process then finds nothing to send and reads on)
        c04.rule_W(ck, lib)
    # no message is lost between reads (it could then never be answered): the buffer discipline of process (K-rules of C07)
    import c07
    c07.rule_K(ck, lib, "C10-K")
    # nothing is written for a header in the wrong form (query on a command-only node): the slot rule of C01
    import c01
    with ck.under("C01-", "C10-C01"):
        c01.rule_X(ck, lib)
    rule_B(ck, lib)


def rule_B(ck, lib):
    """C10-B: "never writes anything other than query responses" - the dispatcher writes whatever its handler returns, so
    a header in command form must be bound to a handler without a response value. For the commands the library itself
    declares (StandardCommands, ErrorCommands) that is a fact of the tree: on every witness interface, each command-form
    spelling of the emitted trie that reaches a library function reaches one whose Ok type is `()`."""
    import re
    import witness
    if getattr(ck, "cfg_rerun", False):
        return
    fs, specs, failures = witness.build(ck, ck.seed, 400 if ck.tier == "thorough" else 40)
    wit = fs.crate("wit.rlib")
    if fs.rc != 0 or wit is None:
        for (sp, msg) in failures:
            ck.bad("C10-B", "witness:%s:build" % (sp["mod"] if sp else "crate"), "witness interfaces do not build: %s" % msg[:400])
        return
    enums = ctx.enums_of(wit)
    n_lib = n_cmd = 0
    for spec in specs:
        it = witness.Iface(wit, spec)
        lang, problems, seen = it.language()
        arms = witness.Arms(it, enums)
        if lang is None or problems or not arms.ok:
            continue            # reported by the dispatcher rules (C01-T/D)
        id2fn = {}
        for k, xs in arms.by_arm.items():
            id2fn[k] = sorted({h[1] for x in xs for h in arms.handler_calls(x)})
        done = set()
        for (spelling, kind), cid in sorted(lang.items()):
            for fn in id2fn.get(cid, []):
                if not fn.startswith("microscpi::"):
                    continue
                n_lib += 1
                if kind != "command" or (cid, fn) in done:
                    continue
                done.add((cid, fn))
                n_cmd += 1
                b = lib.body(fn)
                ret = (b or {}).get("ret", "?")
                m = re.match(r"core::result::Result<(.*), microscpi::error::Error>$", ret)
                ck.judge(m is not None and m.group(1) == "()", "C10-B", "witness:%s:%s" % (spec["mod"], ":".join(spelling)),
                         "command form %s -> %s returns no value" % (":".join(spelling), fn.split("::")[-1]),
                         "the command form `%s` is bound to %s, which returns `%s`: the dispatcher writes that value, so a message that is not a query produces output"
                         % (":".join(spelling), fn, ret))
    ck.floor("C10-B", "spellings of library-declared commands examined (positive control: the built-in queries)", n_lib, 20)
    ck.extra["builtin_command_forms"] = n_cmd

def response_typestate(ck, exits, res_id, rid):
    """T4: typestate of the response buffer along every path segment."""
    def is_res(t):
        return isinstance(t, tuple) and t and t[0] in ("loopvar", "local") and t[1] == res_id
    # T4: typestate per path
    for i, x in enumerate(exits):
        state = "empty"      # hypothesis at every loop head / entry
        pending_flush = False
        problems = []
        saw_run = False
        conds = {(c[1]): c[2] for c in x.conds if c[0] == "true"}
        for e in x.effects:
            if e[0] == "loop_head":
                if state != "empty" or pending_flush:
                    problems.append("reaches loop head %s with response buffer %s%s" % (e[1], state, ", unflushed" if pending_flush else ""))
                continue
            if e[0] != "call":
                continue
            name = e[1]
            args = e[2]
            if name == RUN:
                state = "dirty"
                saw_run = True
            elif name.endswith("::is_empty") and args and is_res(args[0]):
                t = ("call", e[1], e[2], e[3])
                v = conds.get(t)
                if v is True:
                    state = "empty"
                elif v is False:
                    state = "nonempty"
            elif name == ADAPTER + "write":
                if not (len(args) >= 2 and is_res(args[1])):
                    problems.append("write of something other than the response buffer: %s" % show_term(args[1] if len(args) > 1 else args))
                if state != "nonempty":
                    problems.append("write while the response buffer is %s (must be known non-empty)" % state)
                state = "written"
                pending_flush = True
            elif name == ADAPTER + "flush":
                pending_flush = False
            elif name.endswith("::clear") and args and is_res(args[0]):
                if state in ("nonempty", "dirty"):
                    problems.append("the response buffer is cleared while it %s a response that has not been written (the answer to a query is dropped)"
                                    % ("holds" if state == "nonempty" else "may hold"))
                state = "empty"
            elif name == ADAPTER + "read":
                if state != "empty" or pending_flush:
                    problems.append("read while the response buffer is %s%s" % (state, ", unflushed" if pending_flush else ""))
            elif any(is_res(a) for a in args):
                problems.append("response buffer passed to %s" % name)
        if x.kind == "backedge" and (state != "empty" or pending_flush):
            problems.append("back-edge with response buffer %s%s" % (state, ", unflushed" if pending_flush else ""))
        if saw_run or problems:
            ck.judge(not problems, rid, "process:path#%d:%s" % (i, x.kind),
                     "response typestate ok: " + "; ".join(e[1].split("::")[-1] for e in x.effects if e[0] == "call" and (e[1].startswith(ADAPTER) or e[1] == RUN or "is_empty" in e[1] or "clear" in e[1])),
                     "; ".join(problems), str(x.extra))




def identify_res_buf(exits):
    ids = set()
    for x in exits:
        for e in x.effects:
            if e[0] == "call" and e[1] == RUN and len(e[2]) >= 3 and e[2][2][0] in ("loopvar", "local"):
                ids.add(e[2][2][1])
    return ids.pop() if len(ids) == 1 else None
