"""C09 - the error queue is a bounded FIFO with IEEE 488.2 overflow semantics."""
import ctx
import hir
import pathsum
import re
from pathsum import ERR, NONE, OK, SOME, show_term

RERUN_ON_CONFIGS = ("dfm", "std")
LEVEL = "proof"
RULE_TEXT = ("C09-C04F: the reply <number>,\"<description>\" is written by the format table of C04 (integers by `{}` of the value itself, comma between tuple elements). The implementation is matched clause by clause against the abstract bounded FIFO with replace-newest "
             "overflow (obligations over path summaries and callee sets, valid for every history and capacity N): "
             "C09-Q push_error = push_back(error), and only on its failure edge a store of Error::QueueOverflow "
             "through back_mut; pop_error = pop_front; error_count = len; no other Deque mutator anywhere in the "
             "crate; C09-H the blanket ErrorHandler pushes its argument exactly once; NEXT? pops once and answers "
             "(number, text) or (0, \"\"); COUNt? answers error_count; push/pop have no other caller; C09-T number() "
             "and the text table cover every variant, numbers agree with the SCPI-1999 table, -350/-113 texts as stated."
             " C09-D: on every witness interface with ErrorCommands each spelling of SYSTem:ERRor[:NEXT]? / :COUNt? reaches exactly system_error_next / system_error_count through the emitted trie and the generated dispatcher."
             " C09-K: the buffer discipline of process (rules K1-K7 of C07) - one response buffer per message, nothing left over at a back-edge."
             " C09-C01M: Node::child returns the child whose key equals the mnemonic, independent of the order of the keys (rule C01-M)."
             " C09-C04X: execute only appends to the response (terminator after a successful query) and touches the writer in no other way (rule C04-X) - a written reply to an error query is never taken back."
             " C09-C04Q: the description is written by the string quoting rule (C04-Q).")

Q = "<microscpi::error_queue::StaticErrorQueue<N> as microscpi::error_queue::ErrorQueue>::"
DEQ = "heapless::deque::Deque::"
EQ = "microscpi::error_queue::ErrorQueue::"
EC = "microscpi::commands::ErrorCommands::"
HANDLER = "microscpi::commands::<impl microscpi::interface::ErrorHandler for I>::handle_error"
QOVER = "microscpi::error::Error::QueueOverflow"

SCPI = {  # SCPI-1999 vol. 2 ch. 21 - number by variant name
    "CommandError": -100, "InvalidCharacter": -101, "SyntaxError": -102, "InvalidSeparator": -103, "DataTypeError": -104,
    "GetNotAllowed": -105, "ParameterNotAllowed": -108, "MissingParameter": -109, "CommandHeaderError": -110,
    "HeaderSeparatorError": -111, "ProgramMnemonicTooLong": -112, "UndefinedHeader": -113, "HeaderSuffixOutOfRange": -114,
    "UnexpectedNumberOfParameters": -115, "NumericDataError": -120, "InvalidCharacterInNumber": -121, "ExponentTooLarge": -123,
    "TooManyDigits": -124, "NumericDataNotAllowed": -128, "SuffixError": -130, "InvalidSuffix": -131, "SuffixTooLong": -134,
    "SuffixNotAllowed": -138, "CharacterDataError": -140, "InvalidCharacterData": -141, "CharacterDataTooLong": -144,
    "CharacterNotAllowed": -148, "CharacterDataNotAllowed": -148, "StringDataError": -150, "InvalidStringData": -151,
    "StringDataNotAllowed": -158, "BlockDataError": -160, "InvalidBlockData": -161, "BlockDataNotAllowed": -168,
    "ExpressionError": -170, "InvalidExpression": -171, "ExpressionDataNotAllowed": -178, "ExecutionError": -200,
    "InvalidWhileInLocal": -201, "CommandProtected": -203, "TriggerError": -210, "ParameterError": -220, "SettingsConflict": -221,
    "DataOutOfRange": -222, "TooMuchData": -223, "IllegalParameterValue": -224, "OutOfMemory": -225, "ListsNotSameLength": -226,
    "DataCorruptOrStale": -230, "HardwareError": -240, "DeviceSpecificError": -300, "SystemError": -310, "StorageFault": -320,
    "SelfTestFailed": -330, "CalibrationFailed": -340, "QueueOverflow": -350, "CommunicationError": -360,
    "InputBufferOverrun": -363, "TimeoutError": -365, "QueryError": -400,
}
STATED_TEXT = {"QueueOverflow": "queue overflow", "UndefinedHeader": "undefined header"}


def deque_calls(x):
    return [e for e in x.effects if e[0] == "call" and e[1].startswith(DEQ)]


def run(ck):
    ck.trust("rustc HIR/typeck", "factdump", "pathsum", "heapless::Deque<_, N> is a bounded deque (push_back fails iff full)")
    lib = ctx.lib(ck)
    if lib is None:
        return
    # the storage of the queue: the one field of `self` (tuple field or named field) that the deque operations of
    # push_error / pop_error / error_count are applied to - the same place in all three
    SELF0 = ("tproj", ("param", "self"), 0)
    places = set()
    for fn in ("push_error", "pop_error", "error_count"):
        ex_, _ = ctx.summarize(lib, Q + fn, ck)
        for x_ in ex_ or []:
            for e_ in x_.effects:
                if e_[0] == "call" and e_[1].startswith(DEQ) and e_[2]:
                    places.add(e_[2][0])
    if len(places) == 1:
        pl = next(iter(places))
        if pl[0] in ("tproj", "field") and pl[1] == ("param", "self"):
            SELF0 = pl

    rule_push(ck, lib, SELF0)
    ex, ps = ctx.summarize(lib, Q + "pop_error", ck)
    if ck.anchor("C09-Q", Q + "pop_error", ex):
        for i, x in enumerate(ex):
            dc = deque_calls(x)
            ok = len(dc) == 1 and dc[0][1] == DEQ + "pop_front" and dc[0][2] == (SELF0,) and x.value == ("call",) + dc[0][1:]
            ck.judge(ok, "C09-Q", "pop_error:path#%d" % i, "pop_error = self.0.pop_front()", "pop_error is %s" % pathsum.show_exit(x))
    ex, ps = ctx.summarize(lib, Q + "error_count", ck)
    if ck.anchor("C09-Q", Q + "error_count", ex):
        for i, x in enumerate(ex):
            dc = deque_calls(x)
            ok = len(dc) == 1 and dc[0][1] == DEQ + "len" and x.value == ("call",) + dc[0][1:]
            ck.judge(ok, "C09-Q", "error_count:path#%d" % i, "error_count = self.0.len()", "error_count is %s" % pathsum.show_exit(x))
    # who-may-call on the deque, whole crate
    allowed = {"push_back", "back_mut", "pop_front", "len", "new", "default", "is_full", "is_empty", "capacity"}   # the last three only read
    n = 0
    user_api = queue_api_the_library_never_calls(lib)
    if user_api:
        ck.extra["queue_api_not_called_by_the_library"] = sorted(user_api)
    for m in lib.facts["mir"]:
        if hir.base_path(m["def"].split("::{closure")[0]) in user_api:
            continue        # further queue API offered to the user (e.g. clear for *CLS): no message, query or command of the histories C09 speaks of runs it
        for b in m["blocks"]:
            t = b["term"]
            if t["k"] == "Call" and t.get("callee"):
                c = hir.base_path(t.get("resolved") or t["callee"])
                c0 = hir.base_path(t["callee"])
                for cc in (c, c0):
                    if cc.startswith(DEQ) or "heapless::deque::Deque" in cc:
                        n += 1
                        nm = cc.split("::")[-1]
                        ck.judge(nm in allowed, "C09-Q", "deque-op:%s:%s" % (m["def"], nm), "Deque::%s" % nm,
                                 "%s uses Deque::%s (only push_back/back_mut/pop_front/len may touch the queue)" % (m["def"], nm), "%s:%s" % (t["sp"][0], t["sp"][1]))
                        break
    ck.floor("C09-Q", "Deque operations in the crate (positive control of the matcher)", n, 4)

    # ---- C09-H
    ex, ps = ctx.summarize(lib, HANDLER, ck)
    if ck.anchor("C09-H", HANDLER, ex):
        for i, x in enumerate(ex):
            calls = [e for e in x.effects if e[0] == "call"]
            pushes = [e for e in calls if e[1] == EQ + "push_error"]
            ok = len(pushes) == 1 and pushes[0][2][1] == ("param", "error") and pushes[0][2][0][0] == "call" and pushes[0][2][0][1] == EC + "error_queue" \
                and all(e[1] in (EQ + "push_error", EC + "error_queue") for e in calls) and x.kind == "return"
            ck.judge(ok, "C09-H", "handle_error:path#%d" % i, "handle_error pushes its argument once, unchanged",
                     "handle_error is %s" % pathsum.show_exit(x))
    text_cases = set()
    text_e0 = None
    ex, ps = ctx.summarize(lib, EC + "system_error_next", ck)
    if ck.anchor("C09-H", EC + "system_error_next", ex):
        ck.floor("C09-H", "paths of system_error_next", len(ex), 2)
        for i, x in enumerate(ex):
            pops = [e for e in x.effects if e[0] == "call" and e[1] == EQ + "pop_error"]
            if not ck.judge(len(pops) == 1, "C09-H", "system_error_next:path#%d:pop-once" % i, "pops once", "pops %d times" % len(pops)):
                continue
            pt = ("call",) + pops[0][1:]
            some = ps.decided(pathsum.St(x.conds), pt, SOME)
            e0 = ("payload", pt, SOME, 0)
            v = x.value
            if some:
                ok = v[0] == "ctor" and v[1] == OK and v[2][0][0] == "tuple" and len(v[2][0][1]) == 2
                if ok:
                    a, b = v[2][0][1]
                    ok = a[0] == "call" and a[1] == "microscpi::error::Error::number" and a[2] == (e0,)
                    if ok and b[0] == "call" and b[1].split("::")[-1] in ("into", "from") and b[2] == (e0,):
                        pass        # the conversion Error -> &str, called as such
                    elif ok:
                        # the text comes from a private helper evaluated in place (one path per variant): collected and
                        # compared, as a case split over the entry, with the conversion Error -> &str below
                        e0s = pathsum.strip_sites(e0)
                        cs = frozenset(pathsum.strip_sites(c) for c in x.conds if any(u == e0s for u in pathsum.subterms(pathsum.strip_sites(c[1]))))
                        text_cases.add((cs, pathsum.strip_sites(b)))
                        text_e0 = e0s
                ck.judge(ok, "C09-H", "system_error_next:some#%d" % i if text_cases else "system_error_next:some", "entry e -> Ok((e.number(), <text of e>))", "NEXT? answers %s for a stored entry" % show_term(v))
            elif some is False:
                ok = v == ("ctor", OK, (("tuple", (("lit", "int", 0), ("lit", "str", ""))),))
                ck.judge(ok, "C09-H", "system_error_next:none", "empty queue -> Ok((0, \"\"))", "NEXT? answers %s for an empty queue" % show_term(v))
            else:
                ck.bad("C09-H", "system_error_next:path#%d" % i, "result of pop_error is not inspected")
    if text_cases:
        conv = [b_ for b_ in lib.facts["bodies"] if (b_.get("trait_ref") or "").endswith("core::convert::From<microscpi::error::Error>>") and "str" in (b_.get("self_ty") or "")]
        want = set()
        if len(conv) == 1:
            cex, cps = ctx.summarize(lib, conv[0]["def"], ck)
            pn = conv[0]["params"][0].get("name")
            for cx in cex or []:
                if cx.kind == "return" and cx.value is not None:
                    sub = lambda t: ctx.subst_term(pathsum.strip_sites(t), ("param", pn), text_e0)
                    want.add((frozenset(sub(c) for c in cx.conds), sub(cx.value)))
        ck.judge(len(conv) == 1 and want == text_cases, "C09-H", "system_error_next:text", "the text of an entry is, case by case, what the conversion Error -> &str yields (%d cases)" % len(want),
                 "the text NEXT? reports for an entry differs from the conversion Error -> &str: %s" % sorted(show_term(t) for _, t in (text_cases ^ want))[:4])
    ex, ps = ctx.summarize(lib, EC + "system_error_count", ck)
    if ck.anchor("C09-H", EC + "system_error_count", ex):
        for i, x in enumerate(ex):
            v = x.value
            ok = v[0] == "ctor" and v[1] == OK and v[2][0][0] == "call" and v[2][0][1] == EQ + "error_count" and v[2][0][2][0][0] == "call" and v[2][0][2][0][1] == EC + "error_queue"
            ck.judge(ok, "C09-H", "system_error_count:path#%d" % i, "COUNt? = error_queue().error_count()", "COUNt? answers %s" % show_term(v))
    # who-may-call push/pop
    callers = {"push_error": set(), "pop_error": set()}
    for b in lib.facts["bodies"]:
        for x in hir.walk(b["value"]):
            c = hir.base_path(hir.callee(x) or "")
            if c in (EQ + "push_error", EQ + "pop_error") and hir.base_path(b["def"].split("::{closure")[0]) not in user_api:
                callers[c.split("::")[-1]].add(b["def"])
    ck.judge(callers["push_error"] == {HANDLER}, "C09-H", "who-calls:push_error", "only the blanket ErrorHandler pushes", "push_error called from %s" % sorted(callers["push_error"]))
    ck.judge(callers["pop_error"] == {EC + "system_error_next"}, "C09-H", "who-calls:pop_error", "only SYSTem:ERRor[:NEXT]? pops", "pop_error called from %s" % sorted(callers["pop_error"]))

    # ---- C09-R: every fault reaches the handler (hence the queue) at the point where it occurs - before the next unit of
    # the same message runs - exactly once and unchanged (the report rules of C06-R, evaluated under C09)
    import c06
    c06.rule_R(ck, lib, "C09-R")

    # ---- C09-T tables
    num = table(lib, "microscpi::error::Error::number")
    conv_ = [b_["def"] for b_ in lib.facts["bodies"] if (b_.get("trait_ref") or "").endswith("core::convert::From<microscpi::error::Error>>") and "str" in (b_.get("self_ty") or "")]
    txt = table(lib, conv_[0]) if len(conv_) == 1 else None
    variants = [v["name"] for e in lib.facts["enums"] if e["path"] == "microscpi::error::Error" for v in e["variants"]]
    ck.floor("C09-T", "Error variants", len(variants), 60)
    if ck.anchor("C09-T", "Error::number table", num) and ck.anchor("C09-T", "From<Error> for &str table", txt):
        seen = {}
        for v in variants:
            if v == "Custom":
                continue
            n_ = num.get(v)
            t_ = txt.get(v)
            ok = isinstance(n_, int) and isinstance(t_, str) and t_ != ""
            if ok and v in SCPI:
                ok = n_ == SCPI[v]
            elif ok:
                ok = -499 <= n_ <= -100
            if ok and n_ in seen:
                ok = False
            seen[n_] = v
            if ok and v in STATED_TEXT:
                ok = t_.lower() == STATED_TEXT[v]
            ck.judge(ok, "C09-T", "error-table:" + v, "%s -> %s, %r" % (v, n_, t_),
                     "%s -> number %s (SCPI-1999: %s), text %r%s" % (v, n_, SCPI.get(v), t_, " (stated: %r)" % STATED_TEXT[v] if v in STATED_TEXT else ""))
    rule_D(ck)
    # every response of the error queries reaches the controller whole: one response buffer per message (K-rules of C07)
    import c07
    c07.rule_K(ck, lib, "C09-K")
    # the error queries reach their nodes at run time whatever else is declared next to them: Node::child returns the
    # child whose key equals the mnemonic, by a scan that does not depend on an order of the keys (rule C01-M)
    import c01
    with ck.under("C01-", "C09-C01"):
        c01.rule_M(ck, lib)
    # the reply to an error query stays in the response once written: execute only appends (the terminator after a
    # successful query) and touches the writer in no other way (rule C04-X)
    import c04
    with ck.under("C04-", "C09-C04"):
        c04.rule_X(ck, lib)
        # <number>,"<description>": the description is written by the string quoting rule, whatever it contains
        c04.rule_Q(ck, lib)
        # ... and the number by the format table: every i16 (a handler-raised custom error may carry any, the lowest
        # included) is written by `{}` of the value itself, the comma between the two elements of the tuple (rule C04-F)
        c04.rule_F(ck, lib)


def queue_api_the_library_never_calls(lib):
    """Methods of the ErrorQueue trait and its implementations, other than push_error / pop_error / error_count, that no
    function of the library outside that set calls (MIR call graph, resolved callees): API for the device's own code. As
    soon as the library calls one of them - from run, a built-in command, the handler - it is judged like the rest."""
    core3 = ("push_error", "pop_error", "error_count")
    cand = set()
    for m in lib.facts["mir"]:
        d = hir.base_path(m["def"].split("::{closure")[0])
        # further methods of the trait / its implementations, and impls of other traits for the queue type (a derived
        # Clone or Debug): what matters is whether anything the library runs calls them
        if ("microscpi::error_queue::ErrorQueue" in d or "microscpi::error_queue::StaticErrorQueue" in d) and d.split("::")[-1] not in core3:
            cand.add(d)
    if not cand:
        return cand
    called = set()
    changed = True
    outside_calls = {}
    for m in lib.facts["mir"]:
        d = hir.base_path(m["def"].split("::{closure")[0])
        for b in m["blocks"]:
            t = b["term"]
            if t["k"] == "Call" and t.get("callee"):
                for c in (hir.base_path(t.get("resolved") or ""), hir.base_path(t["callee"])):
                    if c:
                        outside_calls.setdefault(d, set()).add(c)

    def matches(callee, fn):
        # a call through the trait (`ErrorQueue::clear_errors`) reaches every implementation of that method
        if callee == fn or (callee.split("::")[-1] == fn.split("::")[-1] and "microscpi::error_queue::ErrorQueue" in callee):
            return True
        # a call through another trait (`Clone::clone(&queue)`) reaches the impl of that trait for the queue type
        m_ = re.match(r"<(.*) as (.*)>::(\w+)$", fn)
        return bool(m_) and callee.split("::")[-1] == m_.group(3) and hir.base_path(callee).startswith(hir.base_path(m_.group(2)))

    live = {d for d in outside_calls if d not in cand}
    while changed:
        changed = False
        for d in list(live):
            for c in outside_calls.get(d, ()):
                for f in cand:
                    if f not in live and matches(c, f):
                        live.add(f)
                        changed = True
    return {f for f in cand if f not in live}


def rule_D(ck):
    """C09-D: in every witness interface that requests ErrorCommands, each spelling of SYSTem:ERRor[:NEXT]? and
    SYSTem:ERRor:COUNt? reaches - through the emitted trie and the generated dispatcher - exactly the queue-reading
    function of commands.rs (and no user handler)."""
    import witness
    if getattr(ck, "cfg_rerun", False):
        return
    count = 400 if ck.tier == "thorough" else 40
    fs, specs, failures = witness.build(ck, ck.seed, count)
    wit = fs.crate("wit.rlib")
    if fs.rc != 0 or wit is None:
        ck.bad("C09-D", "witness:build", "witness interfaces do not build: %s" % [m for _, m in failures][:1])
        return
    enums = ctx.enums_of(wit)
    n = 0
    for spec in specs:
        if "ErrorCommands" not in spec["flags"]:
            continue
        it = witness.Iface(wit, spec)
        lang_spec, coll = witness.S.language(witness.S.full_decls(spec))
        lang, problems, seen = it.language()
        arms = witness.Arms(it, enums)
        m = spec["mod"]
        if coll or lang is None or problems or not arms.ok:
            ck.bad("C09-D", "witness:%s:shape" % m, "trie / dispatcher of the witness interface cannot be read: %s" % (problems or coll)[:2])
            continue
        id2fn = {}
        for k, xs in arms.by_arm.items():
            hs = set()
            for x in xs:
                hs.update(h[1] for h in arms.handler_calls(x))
            id2fn[k] = hs
        bad = []
        k = 0
        for key, fn in lang_spec.items():
            if "ErrorCommands::" not in fn:
                continue
            k += 1
            got = id2fn.get(lang.get(key), set())
            if got != {fn}:
                bad.append((":".join(key[0]), fn.split("::")[-1], sorted(got)))
        n += 1
        ck.judge(not bad and k >= 2, "C09-D", "witness:%s:error-commands" % m, "%d spellings of the error queries reach system_error_next / system_error_count" % k,
                 "error-queue queries of interface %s do not reach the queue: %s" % (m, bad[:4]))
    ck.floor("C09-D", "witness interfaces with ErrorCommands", n, 3)


def table(lib, path):
    """variant -> literal for a function that maps an Error to a literal by a case split on its variant: read from the
    path summaries (helpers evaluated in place), so it does not matter in which function the `match` is written."""
    b = lib.body(path)
    if b is None:
        return None
    try:
        ex, ps = ctx.summarize(lib, path)
    except pathsum.Unsupported:
        ex = None
    out = {}
    pn = b["params"][0].get("name") if b["params"] else None
    for x in ex or []:
        if x.kind != "return" or x.value is None:
            continue
        var = None
        neg = set()
        for c in x.conds:
            if c[0] == "is" and c[1] == ("param", pn) and c[2].startswith("microscpi::error::Error::"):
                if c[3] is True:
                    var = c[2].split("::")[-1]
                else:
                    neg.add(c[2].split("::")[-1])
        if var is None:
            # the last arm of an exhaustive match: the one variant not excluded
            allv = [v_["name"] for e_ in lib.facts["enums"] if e_["path"] == "microscpi::error::Error" for v_ in e_["variants"]]
            rest = [v_ for v_ in allv if v_ not in neg]
            if len(rest) == 1:
                var = rest[0]
        v = pathsum.strip_sites(x.value)
        if v[0] == "un" and v[1] == "Neg" and v[2][0] == "lit":
            v = ("lit", v[2][1], -v[2][2])
        if var is not None and v[0] == "lit":
            out[var] = v[2]
    if out:
        return out
    return table_syntactic(lib, path)


def table_syntactic(lib, path):
    v = lib.fn_value(path)
    if v is None:
        return None
    out = {}
    for x in hir.walk(v):
        if x.get("k") == "Match":
            for a in x["arms"]:
                p = a["pat"]
                while p["k"] in ("Ref", "Deref"):
                    p = p["pat"]
                if p["k"] not in ("PathPat",):
                    continue
                name = p["res"]["path"].split("::")[-1]
                b = hir.strip(a["body"])
                neg = False
                if b.get("k") == "Unary" and b["op"] == "Neg":
                    neg = True
                    b = b["e"]
                if b.get("k") == "Lit":
                    val = b["lit"]["v"]
                    out[name] = -val if neg else val
    return out or None

def storage_place(ck, lib):
    SELF0 = ("tproj", ("param", "self"), 0)
    places = set()
    for fn in ("push_error", "pop_error", "error_count"):
        ex_, _ = ctx.summarize(lib, Q + fn, ck)
        for x_ in ex_ or []:
            for e_ in x_.effects:
                if e_[0] == "call" and e_[1].startswith(DEQ) and e_[2]:
                    places.add(e_[2][0])
    if len(places) == 1:
        pl = next(iter(places))
        if pl[0] in ("tproj", "field") and pl[1] == ("param", "self"):
            SELF0 = pl
    return SELF0


def rule_push(ck, lib, SELF0):
    """C09-Q for push_error: the error handed in is stored (push_back), and only when the queue is full the newest entry is
    replaced by QueueOverflow - no report is dropped or merged on the way into the queue."""
    # ---- C09-Q push_error
    ex, ps = ctx.summarize(lib, Q + "push_error", ck)
    if ck.anchor("C09-Q", Q + "push_error", ex):
        ck.floor("C09-Q", "paths of push_error", len(ex), 2)
        for i, x in enumerate(ex):
            dc = deque_calls(x)
            stores = [e for e in x.effects if e[0] == "store"]
            key = "push_error:path#%d" % i
            first = dc[0] if dc else None
            if first is not None and first[1] == DEQ + "is_full" and first[2] == (SELF0,) and x.kind == "return":
                # check-then-act form: `if queue.is_full() { replace the newest } else { push_back }` (push_back of a bounded
                # deque fails exactly when it is full, so the two forms are the same)
                isfull = None
                for c in x.conds:
                    if c[0] == "true" and pathsum.strip_sites(c[1]) == pathsum.strip_sites(("call",) + first[1:]):
                        isfull = c[2]
                rest = dc[1:]
                if isfull is False:
                    ok = len(rest) == 1 and rest[0][1] == DEQ + "push_back" and rest[0][2] == (SELF0, ("param", "error")) and not stores
                    ck.judge(ok, "C09-Q", key + ":stored", "not full: push_back(self.0, error) and nothing else",
                             "queue not full: operations are %s, stores %s" % ([d[1][len(DEQ):] for d in rest], len(stores)))
                elif isfull is True:
                    ok = len(rest) == 1 and rest[0][1] == DEQ + "back_mut" and rest[0][2] == (SELF0,)
                    ck.judge(ok, "C09-Q", key + ":overflow-ops", "queue full: only back_mut(self.0) follows", "queue full: operations are %s (must be exactly back_mut)" % [d[1][len(DEQ):] for d in rest])
                    if ok:
                        bm = ("call",) + rest[0][1:]
                        some = ps.decided(pathsum.St(x.conds), bm, SOME)
                        if some:
                            okst = len(stores) == 1 and stores[0][1] == ("payload", bm, SOME, 0) and stores[0][2] == ("ctor", QOVER, ()) and stores[0][3] is None
                            ck.judge(okst, "C09-Q", key + ":overflow-store", "newest entry := Error::QueueOverflow", "overflow path stores %s" % [(show_term(s_[1]), show_term(s_[2])) for s_ in stores])
                        elif some is False:
                            ck.judge(not stores, "C09-Q", key + ":overflow-empty", "capacity-0 corner: nothing to replace", "store without a back element")
                        else:
                            ck.bad("C09-Q", key + ":overflow-store", "overflow path does not replace the newest entry by QueueOverflow")
                else:
                    ck.bad("C09-Q", key, "is_full() is not tested on this path")
                continue
            ok0 = first is not None and first[1] == DEQ + "push_back" and first[2] == (SELF0, ("param", "error")) and x.kind == "return"
            ck.judge(ok0, "C09-Q", key + ":push_back-first", "first queue operation is push_back(self.0, error)",
                     "first queue operation is %s" % (first[1] + str([show_term(a) for a in first[2]]) if first else "none"), data=pathsum.show_exit(x))
            if not ok0:
                continue
            pb = ("call",) + first[1:]
            full = ps.decided(pathsum.St(x.conds), pb, OK)
            if full is None:
                ck.bad("C09-Q", key, "push_back's result is not inspected on this path (overflow would be silent)", data=pathsum.show_exit(x))
            elif full is True:
                ck.judge(len(dc) == 1 and not stores, "C09-Q", key + ":stored", "push_back succeeded: nothing else touches the queue",
                         "after a successful push_back the queue is modified again: %s %s" % ([d[1] for d in dc[1:]], stores))
            else:
                names = [d[1][len(DEQ):] for d in dc[1:]]
                ok = names == ["back_mut"] and dc[1][2] == (SELF0,)
                ck.judge(ok, "C09-Q", key + ":overflow-ops", "queue full: only back_mut(self.0) follows",
                         "queue full: operations after the failed push_back are %s (must be exactly back_mut)" % names)
                if ok:
                    bm = ("call",) + dc[1][1:]
                    some = ps.decided(pathsum.St(x.conds), bm, SOME)
                    if some:
                        okst = len(stores) == 1 and stores[0][1] == ("payload", bm, SOME, 0) and stores[0][2] == ("ctor", QOVER, ()) and stores[0][3] is None
                        ck.judge(okst, "C09-Q", key + ":overflow-store", "newest entry := Error::QueueOverflow",
                                 "overflow path stores %s" % [(show_term(s[1]), show_term(s[2])) for s in stores])
                    elif some is False:
                        ck.judge(not stores, "C09-Q", key + ":overflow-empty", "capacity-0 corner: nothing to replace", "store without a back element")
                    else:
                        ck.bad("C09-Q", key + ":overflow-store", "overflow path does not replace the newest entry by QueueOverflow")
