"""C09 - the error queue is a bounded FIFO with IEEE 488.2 overflow semantics."""
import ctx
import hir
import pathsum
from pathsum import ERR, NONE, OK, SOME, show_term

RERUN_ON_CONFIGS = ("dfm", "std")
LEVEL = "proof"
RULE_TEXT = ("The implementation is matched clause by clause against the abstract bounded FIFO with replace-newest "
             "overflow (obligations over path summaries and callee sets, valid for every history and capacity N): "
             "C09-Q push_error = push_back(error), and only on its failure edge a store of Error::QueueOverflow "
             "through back_mut; pop_error = pop_front; error_count = len; no other Deque mutator anywhere in the "
             "crate; C09-H the blanket ErrorHandler pushes its argument exactly once; NEXT? pops once and answers "
             "(number, text) or (0, \"\"); COUNt? answers error_count; push/pop have no other caller; C09-T number() "
             "and the text table cover every variant, numbers agree with the SCPI-1999 table, -350/-113 texts as stated."
             " C09-D: on every witness interface with ErrorCommands each spelling of SYSTem:ERRor[:NEXT]? / :COUNt? reaches exactly system_error_next / system_error_count through the emitted trie and the generated dispatcher.")

Q = "<microscpi::error_queue::StaticErrorQueue<N> as microscpi::error_queue::ErrorQueue>::"
DEQ = "heapless::deque::Deque::"
EQ = "microscpi::error_queue::ErrorQueue::"
EC = "microscpi::commands::ErrorCommands::"
HANDLER = "microscpi::commands::<impl microscpi::interface::ErrorHandler for I>::handle_error"
QOVER = "microscpi::error::Error::QueueOverflow"

SCPI = {  # SCPI-1999 vol. 2 ch. 21 - number by variant name
    "CommandError": -100, "InvalidCharacter": -101, "SyntaxError": -102, "InvalidSeparator": -103, "DataTypeError": -104,
    "GetNotAllowed": -105, "ParameterNotAllowed": -108, "MissingParameter": -109, "CommandHeaderError": -110,
    "HeaderSeparatorError": -111, "ProgramMnemonicTooLong": -112, "UndefinedHeader": -113, "HeaderSuffixOutOfRange": -114,
    "UnexpectedNumberOfParameters": -115, "NumericDataError": -120, "InvalidCharacterInNumber": -121, "ExponentTooLarge": -123,
    "TooManyDigits": -124, "NumericDataNotAllowed": -128, "SuffixError": -130, "InvalidSuffix": -131, "SuffixTooLong": -134,
    "SuffixNotAllowed": -138, "CharacterDataError": -140, "InvalidCharacterData": -141, "CharacterDataTooLong": -144,
    "CharacterNotAllowed": -148, "CharacterDataNotAllowed": -148, "StringDataError": -150, "InvalidStringData": -151,
    "StringDataNotAllowed": -158, "BlockDataError": -160, "InvalidBlockData": -161, "BlockDataNotAllowed": -168,
    "ExpressionError": -170, "InvalidExpression": -171, "ExpressionDataNotAllowed": -178, "ExecutionError": -200,
    "InvalidWhileInLocal": -201, "CommandProtected": -203, "TriggerError": -210, "ParameterError": -220, "SettingsConflict": -221,
    "DataOutOfRange": -222, "TooMuchData": -223, "IllegalParameterValue": -224, "OutOfMemory": -225, "ListsNotSameLength": -226,
    "DataCorruptOrStale": -230, "HardwareError": -240, "DeviceSpecificError": -300, "SystemError": -310, "StorageFault": -320,
    "SelfTestFailed": -330, "CalibrationFailed": -340, "QueueOverflow": -350, "CommunicationError": -360,
    "InputBufferOverrun": -363, "TimeoutError": -365, "QueryError": -400,
}
STATED_TEXT = {"QueueOverflow": "queue overflow", "UndefinedHeader": "undefined header"}


def deque_calls(x):
    return [e for e in x.effects if e[0] == "call" and e[1].startswith(DEQ)]


def run(ck):
    ck.trust("rustc HIR/typeck", "factdump", "pathsum", "heapless::Deque<_, N> is a bounded deque (push_back fails iff full)")
    lib = ctx.lib(ck)
    if lib is None:
        return
    SELF0 = ("tproj", ("param", "self"), 0)

    # ---- C09-Q push_error
    ex, ps = ctx.summarize(lib, Q + "push_error", ck)
    if ck.anchor("C09-Q", Q + "push_error", ex):
        ck.floor("C09-Q", "paths of push_error", len(ex), 2)
        for i, x in enumerate(ex):
            dc = deque_calls(x)
            stores = [e for e in x.effects if e[0] == "store"]
            key = "push_error:path#%d" % i
            first = dc[0] if dc else None
            ok0 = first is not None and first[1] == DEQ + "push_back" and first[2] == (SELF0, ("param", "error")) and x.kind == "return"
            ck.judge(ok0, "C09-Q", key + ":push_back-first", "first queue operation is push_back(self.0, error)",
                     "first queue operation is %s" % (first[1] + str([show_term(a) for a in first[2]]) if first else "none"), data=pathsum.show_exit(x))
            if not ok0:
                continue
            pb = ("call",) + first[1:]
            full = ps.decided(pathsum.St(x.conds), pb, OK)
            if full is None:
                ck.bad("C09-Q", key, "push_back's result is not inspected on this path (overflow would be silent)", data=pathsum.show_exit(x))
            elif full is True:
                ck.judge(len(dc) == 1 and not stores, "C09-Q", key + ":stored", "push_back succeeded: nothing else touches the queue",
                         "after a successful push_back the queue is modified again: %s %s" % ([d[1] for d in dc[1:]], stores))
            else:
                names = [d[1][len(DEQ):] for d in dc[1:]]
                ok = names == ["back_mut"] and dc[1][2] == (SELF0,)
                ck.judge(ok, "C09-Q", key + ":overflow-ops", "queue full: only back_mut(self.0) follows",
                         "queue full: operations after the failed push_back are %s (must be exactly back_mut)" % names)
                if ok:
                    bm = ("call",) + dc[1][1:]
                    some = ps.decided(pathsum.St(x.conds), bm, SOME)
                    if some:
                        okst = len(stores) == 1 and stores[0][1] == ("payload", bm, SOME, 0) and stores[0][2] == ("ctor", QOVER, ()) and stores[0][3] is None
                        ck.judge(okst, "C09-Q", key + ":overflow-store", "newest entry := Error::QueueOverflow",
                                 "overflow path stores %s" % [(show_term(s[1]), show_term(s[2])) for s in stores])
                    elif some is False:
                        ck.judge(not stores, "C09-Q", key + ":overflow-empty", "capacity-0 corner: nothing to replace", "store without a back element")
                    else:
                        ck.bad("C09-Q", key + ":overflow-store", "overflow path does not replace the newest entry by QueueOverflow")
    ex, ps = ctx.summarize(lib, Q + "pop_error", ck)
    if ck.anchor("C09-Q", Q + "pop_error", ex):
        for i, x in enumerate(ex):
            dc = deque_calls(x)
            ok = len(dc) == 1 and dc[0][1] == DEQ + "pop_front" and dc[0][2] == (SELF0,) and x.value == ("call",) + dc[0][1:]
            ck.judge(ok, "C09-Q", "pop_error:path#%d" % i, "pop_error = self.0.pop_front()", "pop_error is %s" % pathsum.show_exit(x))
    ex, ps = ctx.summarize(lib, Q + "error_count", ck)
    if ck.anchor("C09-Q", Q + "error_count", ex):
        for i, x in enumerate(ex):
            dc = deque_calls(x)
            ok = len(dc) == 1 and dc[0][1] == DEQ + "len" and x.value == ("call",) + dc[0][1:]
            ck.judge(ok, "C09-Q", "error_count:path#%d" % i, "error_count = self.0.len()", "error_count is %s" % pathsum.show_exit(x))
    # who-may-call on the deque, whole crate
    allowed = {"push_back", "back_mut", "pop_front", "len", "new", "default"}
    n = 0
    for m in lib.facts["mir"]:
        for b in m["blocks"]:
            t = b["term"]
            if t["k"] == "Call" and t.get("callee"):
                c = hir.base_path(t.get("resolved") or t["callee"])
                c0 = hir.base_path(t["callee"])
                for cc in (c, c0):
                    if cc.startswith(DEQ) or "heapless::deque::Deque" in cc:
                        n += 1
                        nm = cc.split("::")[-1]
                        ck.judge(nm in allowed, "C09-Q", "deque-op:%s:%s" % (m["def"], nm), "Deque::%s" % nm,
                                 "%s uses Deque::%s (only push_back/back_mut/pop_front/len may touch the queue)" % (m["def"], nm), "%s:%s" % (t["sp"][0], t["sp"][1]))
                        break
    ck.floor("C09-Q", "Deque operations in the crate (positive control of the matcher)", n, 4)

    # ---- C09-H
    ex, ps = ctx.summarize(lib, HANDLER, ck)
    if ck.anchor("C09-H", HANDLER, ex):
        for i, x in enumerate(ex):
            calls = [e for e in x.effects if e[0] == "call"]
            pushes = [e for e in calls if e[1] == EQ + "push_error"]
            ok = len(pushes) == 1 and pushes[0][2][1] == ("param", "error") and pushes[0][2][0][0] == "call" and pushes[0][2][0][1] == EC + "error_queue" \
                and all(e[1] in (EQ + "push_error", EC + "error_queue") for e in calls) and x.kind == "return"
            ck.judge(ok, "C09-H", "handle_error:path#%d" % i, "handle_error pushes its argument once, unchanged",
                     "handle_error is %s" % pathsum.show_exit(x))
    ex, ps = ctx.summarize(lib, EC + "system_error_next", ck)
    if ck.anchor("C09-H", EC + "system_error_next", ex):
        ck.floor("C09-H", "paths of system_error_next", len(ex), 2)
        for i, x in enumerate(ex):
            pops = [e for e in x.effects if e[0] == "call" and e[1] == EQ + "pop_error"]
            if not ck.judge(len(pops) == 1, "C09-H", "system_error_next:path#%d:pop-once" % i, "pops once", "pops %d times" % len(pops)):
                continue
            pt = ("call",) + pops[0][1:]
            some = ps.decided(pathsum.St(x.conds), pt, SOME)
            e0 = ("payload", pt, SOME, 0)
            v = x.value
            if some:
                ok = v[0] == "ctor" and v[1] == OK and v[2][0][0] == "tuple" and len(v[2][0][1]) == 2
                if ok:
                    a, b = v[2][0][1]
                    ok = a[0] == "call" and a[1] == "microscpi::error::Error::number" and a[2] == (e0,) and b[0] == "call" and b[1].endswith("::into") and b[2] == (e0,)
                ck.judge(ok, "C09-H", "system_error_next:some", "entry e -> Ok((e.number(), e.into()))", "NEXT? answers %s for a stored entry" % show_term(v))
            elif some is False:
                ok = v == ("ctor", OK, (("tuple", (("lit", "int", 0), ("lit", "str", ""))),))
                ck.judge(ok, "C09-H", "system_error_next:none", "empty queue -> Ok((0, \"\"))", "NEXT? answers %s for an empty queue" % show_term(v))
            else:
                ck.bad("C09-H", "system_error_next:path#%d" % i, "result of pop_error is not inspected")
    ex, ps = ctx.summarize(lib, EC + "system_error_count", ck)
    if ck.anchor("C09-H", EC + "system_error_count", ex):
        for i, x in enumerate(ex):
            v = x.value
            ok = v[0] == "ctor" and v[1] == OK and v[2][0][0] == "call" and v[2][0][1] == EQ + "error_count" and v[2][0][2][0][0] == "call" and v[2][0][2][0][1] == EC + "error_queue"
            ck.judge(ok, "C09-H", "system_error_count:path#%d" % i, "COUNt? = error_queue().error_count()", "COUNt? answers %s" % show_term(v))
    # who-may-call push/pop
    callers = {"push_error": set(), "pop_error": set()}
    for b in lib.facts["bodies"]:
        for x in hir.walk(b["value"]):
            c = hir.base_path(hir.callee(x) or "")
            if c in (EQ + "push_error", EQ + "pop_error"):
                callers[c.split("::")[-1]].add(b["def"])
    ck.judge(callers["push_error"] == {HANDLER}, "C09-H", "who-calls:push_error", "only the blanket ErrorHandler pushes", "push_error called from %s" % sorted(callers["push_error"]))
    ck.judge(callers["pop_error"] == {EC + "system_error_next"}, "C09-H", "who-calls:pop_error", "only SYSTem:ERRor[:NEXT]? pops", "pop_error called from %s" % sorted(callers["pop_error"]))

    # ---- C09-R: every fault reaches the handler (hence the queue) at the point where it occurs - before the next unit of
    # the same message runs - exactly once and unchanged (the report rules of C06-R, evaluated under C09)
    import c06
    c06.rule_R(ck, lib, "C09-R")

    # ---- C09-T tables
    num = table(lib, "microscpi::error::Error::number")
    txt = table(lib, "microscpi::error::<impl core::convert::From<microscpi::error::Error> for &str>::from")
    variants = [v["name"] for e in lib.facts["enums"] if e["path"] == "microscpi::error::Error" for v in e["variants"]]
    ck.floor("C09-T", "Error variants", len(variants), 60)
    if ck.anchor("C09-T", "Error::number table", num) and ck.anchor("C09-T", "From<Error> for &str table", txt):
        seen = {}
        for v in variants:
            if v == "Custom":
                continue
            n_ = num.get(v)
            t_ = txt.get(v)
            ok = isinstance(n_, int) and isinstance(t_, str) and t_ != ""
            if ok and v in SCPI:
                ok = n_ == SCPI[v]
            elif ok:
                ok = -499 <= n_ <= -100
            if ok and n_ in seen:
                ok = False
            seen[n_] = v
            if ok and v in STATED_TEXT:
                ok = t_.lower() == STATED_TEXT[v]
            ck.judge(ok, "C09-T", "error-table:" + v, "%s -> %s, %r" % (v, n_, t_),
                     "%s -> number %s (SCPI-1999: %s), text %r%s" % (v, n_, SCPI.get(v), t_, " (stated: %r)" % STATED_TEXT[v] if v in STATED_TEXT else ""))
    rule_D(ck)


def rule_D(ck):
    """C09-D: in every witness interface that requests ErrorCommands, each spelling of SYSTem:ERRor[:NEXT]? and
    SYSTem:ERRor:COUNt? reaches - through the emitted trie and the generated dispatcher - exactly the queue-reading
    function of commands.rs (and no user handler)."""
    import witness
    if getattr(ck, "cfg_rerun", False):
        return
    count = 400 if ck.tier == "thorough" else 40
    fs, specs, failures = witness.build(ck, ck.seed, count)
    wit = fs.crate("wit.rlib")
    if fs.rc != 0 or wit is None:
        ck.bad("C09-D", "witness:build", "witness interfaces do not build: %s" % [m for _, m in failures][:1])
        return
    enums = ctx.enums_of(wit)
    n = 0
    for spec in specs:
        if "ErrorCommands" not in spec["flags"]:
            continue
        it = witness.Iface(wit, spec)
        lang_spec, coll = witness.S.language(witness.S.full_decls(spec))
        lang, problems, seen = it.language()
        arms = witness.Arms(it, enums)
        m = spec["mod"]
        if coll or lang is None or problems or not arms.ok:
            ck.bad("C09-D", "witness:%s:shape" % m, "trie / dispatcher of the witness interface cannot be read: %s" % (problems or coll)[:2])
            continue
        id2fn = {}
        for k, xs in arms.by_arm.items():
            hs = set()
            for x in xs:
                hs.update(h[1] for h in arms.handler_calls(x))
            id2fn[k] = hs
        bad = []
        k = 0
        for key, fn in lang_spec.items():
            if "ErrorCommands::" not in fn:
                continue
            k += 1
            got = id2fn.get(lang.get(key), set())
            if got != {fn}:
                bad.append((":".join(key[0]), fn.split("::")[-1], sorted(got)))
        n += 1
        ck.judge(not bad and k >= 2, "C09-D", "witness:%s:error-commands" % m, "%d spellings of the error queries reach system_error_next / system_error_count" % k,
                 "error-queue queries of interface %s do not reach the queue: %s" % (m, bad[:4]))
    ck.floor("C09-D", "witness interfaces with ErrorCommands", n, 3)


def table(lib, path):
    """variant -> literal for a `match self { Error::V => lit, ... }` function."""
    v = lib.fn_value(path)
    if v is None:
        return None
    out = {}
    for x in hir.walk(v):
        if x.get("k") == "Match":
            for a in x["arms"]:
                p = a["pat"]
                while p["k"] in ("Ref", "Deref"):
                    p = p["pat"]
                if p["k"] not in ("PathPat",):
                    continue
                name = p["res"]["path"].split("::")[-1]
                b = hir.strip(a["body"])
                neg = False
                if b.get("k") == "Unary" and b["op"] == "Neg":
                    neg = True
                    b = b["e"]
                if b.get("k") == "Lit":
                    val = b["lit"]["v"]
                    out[name] = -val if neg else val
    return out or None
