"""C07 - process depends only on the byte stream, not on how it arrives."""
import bytecls
import ctx
import hir
import pathsum
import linform
import c02
from linform import Lin, lin
from pathsum import ERR, OK, SOME, St, show_term, strip_sites

RERUN_ON_CONFIGS = ("dfm", "std")
LEVEL = "other"
RULE_TEXT = ("C07-K buffer discipline of process, decided on the linear normal forms of the offset updates along every path "
             "of the single generic body (all N, all chunkings): K1 the adapter fills cmd_buf[read..] and read_end = read + "
             "count; K2 the terminator scan covers exactly cmd_buf[read..read_end], term = read + pos, the predicate denotes "
             "{10}; K3 run receives cmd_buf[proc..=term]; K4 after run proc' = term + 1 - len(remaining), read' = term + 1; "
             "K5 after the scan read' = read_end; K7 the response buffer is written, flushed and cleared per message (typestate as in C10-T4); K6 consumed bytes at the front are reclaimed (copy_within(proc..read_end, 0), "
             "read' = read_end - proc, proc' = 0) whenever proc > 0 before fullness is judged, and input is discarded "
             "(read' = 0 without copy) only when proc = 0 and the buffer is full. C07-A: every future is awaited in place, "
             "no hand-written poll machinery (a Pending can only suspend, never change results)."
             " K8: nothing in process writes into the command buffer except Adapter::read and the compaction. K5/K6 accept lazy compaction: pending bytes may stay in place while the full-buffer test on read_end fails, both offsets return to 0 when nothing is pending."
            " C07-C04W: the shipped writers (process answers through one of them) append exactly what they are given or fail, on no path removing what they hold - rule C04-W."
             " C07-C06R: run consumes a faulty terminated message (one report, resumption behind the raw newline) - rule C06-R.")

PROCESS = "microscpi::interface::Interface::process"
ADAPTER = "microscpi::interface::Adapter::"
RUN = "microscpi::interface::Interface::run"


def S(t):
    return strip_sites(t)


def run(ck):
    ck.trust("rustc HIR/typeck", "factdump", "pathsum", "linform")
    ck.assume("a conforming Adapter::read returns count <= dst.len()",
              "equality of observable behaviour across chunkings follows from K1-K7 and C07-A by the argument in DESIGN.md; "
              "messages longer than N are outside the statement")
    lib = ctx.lib(ck)
    if lib is None:
        return
    rule_K(ck, lib, "C07")
    # "identical to handing the messages to run one at a time": process answers through one particular writer (its
    # heapless response buffer) - that writer, like every shipped one, appends exactly what it is given, with no capacity of
    # its own between the value and the buffer (seeded C07-Z: write_fmt of the heapless writer formatting into a 32 byte
    # scratch first, so that process drops a response that run with another writer delivers) - the writer rule of C04
    import c04
    with ck.under("C04-", "C07-C04"):
        c04.rule_W(ck, lib)


def rule_K(ck, lib, pfx):
    """Buffer discipline of process; rule ids are prefixed with `pfx` (C07-K.. or, reused by C08, C08-P..)."""
    import c10
    exits, ps = ctx.summarize(lib, PROCESS, ck)
    if not ck.anchor(pfx + "-K", PROCESS, exits):
        return
    # K7: the response buffer is drained (written, flushed, cleared) per message, so its N bytes are available to
    # every message no matter how many messages one read delivers
    rid = c10.identify_res_buf(exits)
    if ck.judge(rid is not None, pfx + "-K7", "process:res_buf", "response buffer identified", "cannot identify the response buffer passed to run"):
        c10.response_typestate(ck, exits, rid, pfx + "-K7")
    # ---- roles
    reads = set()
    runs = set()
    for x in exits:
        for e in x.effects:
            if e[0] == "call" and e[1] == ADAPTER + "read":
                reads.add(S(e[2][1]))
            if e[0] == "call" and e[1] == RUN:
                runs.add(S(e[2][1]))
    if not ck.judge(len(reads) == 1 and len(runs) == 1, pfx + "-K", "process:anchors", "one read site, one run site", "expected exactly one Adapter::read destination and one run input, found %d / %d" % (len(reads), len(runs))):
        return
    dst = reads.pop()
    ok = dst[0] == "index" and dst[1][0] == "loopvar" and dst[2][0] == "struct" and dst[2][1].endswith("RangeFrom") and dict(dst[2][2])["start"][0] == "loopvar"
    if not ck.judge(ok, pfx + "-K1", "process:read-destination", "read(&mut cmd_buf[read_offset..])", "Adapter::read destination is %s, not cmd_buf[read..]" % show_term(dst)):
        return
    buf = dst[1]
    R_out = dict(dst[2][2])["start"]
    read_id = R_out[1]
    buf_id = buf[1]
    # K8: the received bytes are what the handlers see: nothing in process writes into the command buffer except the
    # transport's read and the compaction (a byte rewritten in place - a CR turned into a terminator, a control byte blanked -
    # changes payloads, and at a position that depends on where a read happens to end)
    writers = {}
    for x in exits:
        for e in x.effects:
            if e[0] == "store":
                root = e[1]
                while isinstance(root, tuple) and root and root[0] in ("index", "field", "deref"):
                    root = root[1]
                if isinstance(root, tuple) and len(root) > 1 and root[0] in ("loopvar", "local") and root[1] == buf_id:
                    writers["store %s := %s" % (show_term(S(e[1]))[:120], show_term(S(e[2]))[:40] if len(e) > 2 and isinstance(e[2], tuple) else "?")] = e
            if e[0] == "call" and e[1] not in (ADAPTER + "read", RUN) and not e[1].endswith("::copy_within"):
                for a in e[2]:
                    if isinstance(a, tuple) and a and a[0] in ("refmut", "mutref") and any(isinstance(u, tuple) and len(u) > 1 and u[0] in ("loopvar", "local") and u[1] == buf_id for u in pathsum.subterms(a)):
                        writers["&mut to %s" % e[1].split("::")[-1]] = e
    ck.judge(not writers, pfx + "-K8", "process:buffer-writers", "the command buffer is written by Adapter::read and copy_within only",
             "process also writes into the command buffer: %s" % sorted(writers)[:3])
    data = runs.pop()
    import slicelin
    kind_, P_in, last_ = slicelin.rng_parts(data[2]) if data[0] == "index" else (None, None, None)
    ok = data[0] == "index" and data[1][0] == "loopvar" and data[1][1] == buf_id and kind_ in ("RangeInclusive", "Range")
    if not ck.judge(ok, pfx + "-K3", "process:run-input", "run(&cmd_buf[proc_offset..=terminator_pos])", "run receives %s, not cmd_buf[proc..=term]" % show_term(data)):
        return
    ok = P_in[0] == "loopvar"
    if not ck.judge(ok, pfx + "-K3", "process:run-input:start", "run input starts at the processed offset %s" % show_term(P_in), "run input starts at %s (not a loop-carried offset)" % show_term(P_in)):
        return
    proc_id = P_in[1]
    # term = R_in + pos   (the last byte handed to run; for an exclusive range `..end` that is end - 1)
    lt = lin(last_)
    if kind_ == "Range":
        lt = lt - linform.Lin({}, 1)
    pos_atoms = [a for a in lt.coeffs if a[0] == "payload" and a[2] == SOME and a[1][0] == "call" and a[1][1].endswith("::position")]
    rin_atoms = [a for a in lt.coeffs if a[0] == "loopvar"]
    ok = len(pos_atoms) == 1 and len(rin_atoms) == 1 and lt.const == 0 and len(lt.coeffs) == 2 and all(v == 1 for v in lt.coeffs.values())
    if not ck.judge(ok, pfx + "-K2", "process:terminator-pos", "term = read + pos: %r" % lt, "terminator position is %r, expected read_offset + position" % lt):
        return
    pos = pos_atoms[0]
    R_in = rin_atoms[0]
    scan_id = R_in[1]
    # the scan starts where the previous read stopped: at every entry of the scan loop its offset is the read offset
    ent = ps.loops.get(R_in[3], {}).get("entry", [])
    ok = bool(ent) and all(S(st_.env.get(scan_id)) == S(R_out) for st_ in ent if st_.env.get(scan_id) is not None) and all(st_.env.get(scan_id) is not None for st_ in ent)
    ck.judge(ok, pfx + "-K2", "process:scan-start", "the scan loop is entered with its offset = read offset",
             "the terminator scan does not start at the read offset: %s" % [show_term(st_.env.get(scan_id)) if st_.env.get(scan_id) is not None else None for st_ in ent][:3])
    posc = pos[1]
    scan = posc[2][0]   # iter(slice)
    closure = posc[2][1]
    okc = bytecls.denote_term(closure, ps, lib) == frozenset([10])
    ck.judge(okc, pfx + "-K2", "process:terminator-predicate", "scan predicate denotes {10}", "scan predicate does not denote exactly the newline byte")
    # scan range
    sl = scan[2][0] if scan[0] == "call" and scan[1].endswith("::iter") else None
    ok = sl is not None and sl[0] == "index" and sl[1][0] == "loopvar" and sl[1][1] == buf_id and sl[2][0] == "struct" and sl[2][1].endswith("::Range")
    read_end = None
    if ok:
        f = dict(sl[2][2])
        ok = S(f["start"]) == R_in
        read_end = f["end"]
    if not ck.judge(ok, pfx + "-K2", "process:scan-range", "scan covers cmd_buf[read_offset..read_end]", "scan covers %s, expected cmd_buf[read..read_end]" % (show_term(sl) if sl else show_term(scan))):
        return
    le = lin(read_end)

    def is_count(a):
        if a[0] == "payload" and a[2] == OK and a[1][0] == "call" and a[1][1] == ADAPTER + "read":
            return True
        # the count clamped to the space that was offered: min(count, N - read) (an adapter reporting more than it was
        # given room for costs the excess, not a panic; for a conforming adapter it is the count)
        if a[0] == "call" and a[1].split("::")[-1] == "min" and len(a[2]) == 2 and any(is_count(S(u)) for u in a[2]):
            other = [u for u in a[2] if not is_count(S(u))]
            try:
                return len(other) == 1 and any(k[0] in ("constparam",) or (k[0] == "call" and k[1].endswith("::len")) for k in lin(other[0]).coeffs) and lin(other[0]).coeffs.get(S(R_out)) == -1
            except Exception:
                return False
        return False
    cnt = [a for a in le.coeffs if is_count(a)]
    rout = [a for a in le.coeffs if a == S(R_out)]
    ok = len(cnt) == 1 and len(rout) == 1 and le.const == 0 and len(le.coeffs) == 2 and all(v == 1 for v in le.coeffs.values())
    ck.judge(ok, pfx + "-K1", "process:read_end", "read_end = read + count: %r" % le, "scan end is %r, expected read_offset + count" % le)
    LE = le

    # ---- per path
    run_term = None
    n_inner = n_tail = 0
    inner_site = R_in[3]
    for i, x in enumerate(exits):
        if x.kind != "backedge":
            continue
        heads = [e[1] for e in x.effects if e[0] == "loop_head"]
        runcalls = [e for e in x.effects if e[0] == "call" and e[1] == RUN]
        p2 = x.env.get(proc_id)
        r2 = x.env.get(scan_id if x.extra == R_in[3] else read_id)
        data_ = {"path": pathsum.show_exit(x)[:2500]}
        if x.extra == inner_site:
            # K4: inner back-edge
            n_inner += 1
            if not ck.judge(len(runcalls) == 1, pfx + "-K4", "process:inner#%d:run-once" % n_inner, "one run per terminator", "inner path runs %d times" % len(runcalls), data=data_):
                continue
            rt = S(("call",) + runcalls[0][1:])
            lenrem = Lin({("call", "core::slice::len", (rt,)): 1})
            empty = None
            for c in x.conds:
                if c[0] == "true" and c[1][0] == "call" and c[1][1].endswith("::is_empty") and S(c[1][2][0]) == rt:
                    empty = c[2]
                if c[0] == "empty" and S(c[1]) == rt:
                    empty = c[2]        # the same test written as a slice pattern: `[]` / `[_, ..]`
                # the same test written on the length: remaining.len() == 0 / != 0 / > 0
                if c[0] == "true" and c[1][0] == "bin" and c[1][1] in ("Eq", "Ne", "Gt") and S(c[1][2]) == ("call", "core::slice::len", (rt,)) and c[1][3] == ("lit", "int", 0):
                    empty = c[2] if c[1][1] == "Eq" else (not c[2])
            lp, lr = lin(p2), lin(r2)
            want_r = lt + Lin({}, 1)
            want_p = lt + Lin({}, 1) - lenrem
            if empty is True:
                want_p = lt + Lin({}, 1)
                lp = lp.subst(("call", "core::slice::len", (rt,)), Lin())
            ck.judge(lr == want_r, pfx + "-K4", "process:inner#%d:read'" % n_inner, "read' = term + 1", "after a terminator read' = %r, expected term + 1 = %r" % (lr, want_r), data=data_)
            ck.judge(lp == want_p, pfx + "-K4", "process:inner#%d:proc'" % n_inner, "proc' = term + 1 - len(remaining)%s" % (" (remaining empty)" if empty else ""),
                     "after run proc' = %r, expected term + 1 - len(remaining) = %r" % (lp, want_p), data=data_)
        else:
            # outer back-edge: tail after the scan
            n_tail += 1
            copies = [e for e in x.effects if e[0] == "call" and e[1].endswith("::copy_within")]
            lp, lr = lin(p2), lin(r2)
            Pt = Lin({R_in[:1] and ("loopvar", proc_id, P_in[2], inner_site): 1})
            # conditions on proc (inner-head value after the scan loop exit)
            Pterm = ("loopvar", proc_id, P_in[2], inner_site)
            pc = None
            full = None
            for c in x.conds:
                if c[0] != "true":
                    continue
                t = S(c[1])
                if t[0] == "bin" and t[1] in ("Gt", "Ne") and t[2] == Pterm and t[3] == ("lit", "int", 0):
                    pc = c[2]
                if t[0] == "bin" and t[1] == "Eq" and t[2] == Pterm and t[3] == ("lit", "int", 0):
                    pc = not c[2]
                is_cap = (t[0] == "bin" and ((t[3][0] == "call" and t[3][1].endswith("::len")) or t[3][0] == "constparam"))
                if is_cap and t[1] == "Ge":
                    full = (c[2], lin(t[2]))
                if is_cap and t[1] == "Lt":
                    full = (not c[2], lin(t[2]))
            LP = Lin({Pterm: 1})
            # proc == read_end: everything that was read has been processed (nothing pending)
            nothing_pending = None
            for c in x.conds:
                if c[0] != "true":
                    continue
                t = S(c[1])
                if t[0] == "bin" and t[1] in ("Eq", "Ne"):
                    try:
                        d = lin(t[2]) - lin(t[3])
                    except Exception:
                        continue
                    if d == LP - LE or d == LE - LP:
                        nothing_pending = c[2] if t[1] == "Eq" else (not c[2])
            if pc is False:
                # usize: not (proc > 0) means proc = 0
                lp, lr = lp.subst(Pterm, Lin()), lr.subst(Pterm, Lin())
            key = "process:tail#%d[proc>0=%s,full=%s]" % (n_tail, pc, full[0] if full else None)
            if copies:
                a = copies[0][2]
                okc = len(a) == 3 and S(a[0])[0] == "loopvar" and a[0][1] == buf_id and a[1][0] == "struct" and a[1][1].endswith("::Range") \
                    and lin(dict(a[1][2])["start"]) == LP and lin(dict(a[1][2])["end"]) == LE and a[2] == ("lit", "int", 0)
                ck.judge(okc and pc is True, pfx + "-K6", key + ":compaction", "copy_within(proc..read_end, 0) under proc > 0",
                         "compaction is %s (expected copy_within(proc..read_end, 0) under proc > 0)" % ([show_term(z) for z in a]), data=data_)
                okr = lp == Lin() and (lr == LE - LP or (lr == Lin() and full is not None and full[0] and full[1] == LE - LP))
                ck.judge(okr, pfx + "-K6", key + ":offsets", "after compaction proc' = 0, read' = read_end - proc",
                         "after compaction (proc', read') = (%r, %r), expected (0, read_end - proc)" % (lp, lr), data=data_)
            elif lr == Lin() and lp == Lin() and nothing_pending is True:
                ck.ok(pfx + "-K5", key + ":restart", "nothing pending (proc = read_end): both offsets back to 0, no byte is dropped")
            elif lr == Lin() and lp == Lin() and not (LE == Lin()):
                # discard without copy
                ok = pc is False and full is not None and full[0] is True
                why = "buffered input is discarded (read' = 0 without compaction) "
                if pc is None:
                    why += "without testing whether consumed bytes at the front (proc > 0) could be reclaimed first: a message that would fit after compaction is lost, and whether that happens depends on where the read boundaries fall"
                elif pc:
                    why += "although proc > 0: the consumed prefix must be reclaimed instead"
                else:
                    why += "without the buffer being full"
                ck.judge(ok, pfx + "-K6", key + ":discard", "input discarded only when proc = 0 and the buffer is full", why, data=data_)
            else:
                # the pending bytes stay where they are: nothing to reclaim (proc = 0), or room is left behind them (the test
                # for a full buffer was made on read_end and failed) so that reclaiming can wait
                room = full is not None and full[0] is False and full[1] == LE
                ok = lr == LE and ((pc is False and (lp == LP or lp == Lin())) or (lp == LP and room))
                ck.judge(ok, pfx + "-K5", key + ":keep", "nothing to reclaim or room left: read' = read_end, proc' = proc",
                         "tail path leaves (proc', read') = (%r, %r) with proc>0=%s, full=%s; expected (proc, read_end) under proc = 0 or with room left behind read_end" % (lp, lr, pc, full[0] if full else None), data=data_)
    ck.floor(pfx + "-K4", "inner-loop paths (one per terminator)", n_inner, 2)
    ck.floor(pfx + "-K6", "tail paths after the scan", n_tail, 3)
    c02.async_rules(ck, lib, "C07-A")
    if pfx == "C07":
        # process hands run one terminated message at a time and relies on run consuming it: also a faulty one (reported
        # once, skipped to its terminator - the raw newline process itself stopped at). Otherwise the message stays in the
        # buffer and is offered again with every later line, unlike run on the messages one at a time (rule C06-R)
        import c06
        c06.rule_R(ck, lib, "C07-C06R")
