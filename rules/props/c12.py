"""C12 - parser verdicts are final and depend only on the consumed bytes."""
import bytecls
import ctx
import hir
import pathsum
import skeleton
import c08
from pathsum import ERR, OK, SOME, St, show_term
from skeleton import P, PE, pid_name

RERUN_ON_CONFIGS = ("dfm", "std")
LEVEL = "other"
RULE_TEXT = ("C12-P: the parser is a function of its arguments - no body of the library names a `static mut` or a static with interior mutability (atomics, cells, locks); positive control on synthetic items. C12-I: every construction of ParseError::Incomplete lies on a path whose condition is an end-of-input fact "
             "(first() is None; both parts of a take_while result empty; len() < needed) and every such length/emptiness "
             "test of the input leads to Incomplete; C12-M: Incomplete of a newline-transparent parser is never masked "
             "(= C08-I); C12-D: every take_while site either has a class without byte 10 (cannot run to the end of "
             "newline-terminated input) or is followed, on the remainder, by a mandatory tag whose failure is propagated; "
             "C12-G: every accepted unit passes a strict consumer (>= 1 byte)."
             " C12-PR: the contracts of the parser combinators the skeleton builds on are read from their bodies - satisfy (accept first byte iff pred / soft error / Incomplete on empty), take_while (never fails; longest prefix, position() form or counting-loop form), optional (never fails; Some(value) or input untouched), tag(b) = satisfy(== b)."
             " C12-W: every parser application inside a parser is on the enclosing parser's input or on a remainder (suffix) of it, never on a window cut out of it."
             " C12-L: no parser compares the length of its input or a remainder with a constant from above.")


def run(ck):
    ck.trust("rustc HIR/typeck", "factdump", "pathsum", "bytecls evaluator")
    ck.assume("the for-all-continuations statement is derived from I, M, D, G by the argument in DESIGN.md")
    lib = ctx.lib(ck)
    if lib is None:
        return
    sk = skeleton.Skeleton(ck, lib)
    # the meaning of the parser combinators the skeleton is built from, read from their own bodies
    import primitives
    primitives.check(ck, lib, sk, "C12-PR")
    rule_I(ck, lib, sk)
    c08.rule_I(ck, lib, sk, "C12-M")
    rule_D(ck, lib, sk)
    rule_G(ck, lib, sk, "C12-G")
    rule_T(ck, lib, sk)
    rule_W(ck, lib, sk)
    rule_L(ck, lib, sk)
    rule_STATE(ck, lib, "C12-P")


STATEFUL_TYPES = ("Atomic", "Cell<", "RefCell", "UnsafeCell", "Mutex", "RwLock", "OnceLock", "OnceCell", "LazyLock", "LazyCell", "Lazy<", "SyncUnsafeCell")


def stateful_static(dk, ty):
    """A `static` that can change at run time: `static mut`, or a type with interior mutability."""
    return dk.startswith("Static") and ("Mut" in dk.replace("Mutability", "").replace("mutability", "") and "Not" not in dk or any(w in (ty or "") for w in STATEFUL_TYPES))


def rule_STATE(ck, lib, rid="C12-P", scope=None):
    """%s: the parser is a function of its arguments. No body of the library%s names a `static` that can change at run time
    (`static mut`, atomics, cells, locks): a verdict that depends on such a static depends on earlier calls, not on the
    consumed bytes.  The expected count is zero, so the matcher is exercised on two synthetic items on every run."""
    # positive control of the matcher
    ctl = stateful_static("Static { safety: Safe, mutability: Not, nested: false }", "core::sync::atomic::AtomicUsize") \
        and stateful_static("Static { safety: Safe, mutability: Mut, nested: false }", "usize") \
        and not stateful_static("Static { safety: Safe, mutability: Not, nested: false }", "microscpi::tree::Node") \
        and not stateful_static("Const", "core::sync::atomic::AtomicUsize")
    ck.judge(ctl, rid, "control:matcher-recognises-stateful-statics", "the matcher flags an atomic static and a `static mut`, and passes an immutable one", "the matcher for stateful statics is blind")
    tys = {hir.base_path(b["def"]): (b["kind"], b.get("ty")) for b in lib.facts["bodies"] if b["kind"].startswith("Static")}
    n = 0
    bad = {}
    for b in lib.facts["bodies"]:
        base = hir.base_path(b["def"])
        if scope and not base.startswith(scope):
            continue
        if b["kind"] not in ("Fn", "AssocFn"):
            continue
        n += 1
        for x in hir.walk(b["value"]):
            if x.get("k") == "Path" and (x.get("res") or {}).get("r") == "Def" and (x["res"].get("dk") or "").startswith("Static"):
                path = x["res"]["path"]
                kind, ty = tys.get(path, (x["res"]["dk"], x.get("ty")))
                if stateful_static(kind if kind.startswith("Static") else x["res"]["dk"], ty or x.get("ty")) or stateful_static(x["res"]["dk"], x.get("ty")):
                    bad[(base.split("::")[-1], path.split("::")[-1])] = hir.loc(x)
    ck.judge(not bad, rid, "library:no-stateful-static", "%d function bodies name no static that can change at run time" % n,
             "state outside the arguments: %s read or written - a verdict or an outcome then depends on earlier calls, not on the bytes of the message"
             % ", ".join("static %s in %s" % (v_, f_) for (f_, v_) in sorted(bad)), loc=(sorted(bad.values())[0] if bad else None))
    ck.floor(rid, "function bodies scanned for stateful statics", n, 40)


def rule_L(ck, lib, sk):
    """C12-L: a verdict does not depend on how much input there is behind the unit: no parser compares the length of its
    input or of a remainder with a constant *from above* (`input.len() > LIMIT` -> reject). Length tests from below
    (`len() < needed`) are the end-of-input tests of C12-I."""
    n = 0
    bad = {}
    for path, f in sorted(sk.fns.items()):
        for x in f["exits"]:
            for c in x.conds:
                if c[0] != "true" or c[1][0] != "bin" or c[1][1] not in ("Gt", "Ge", "Lt", "Le"):
                    continue
                op, a, b, val = c[1][1], c[1][2], c[1][3], c[2]
                for (l, r, o) in ((a, b, op), (b, a, {"Gt": "Lt", "Ge": "Le", "Lt": "Gt", "Le": "Ge"}[op])):
                    if l[0] == "call" and l[1].endswith("::len") and len(l[2]) == 1 and r[0] in ("lit", "const", "path") and (sk._is_input_slice(l[2][0], f, x)):
                        n += 1
                        above = (o in ("Gt", "Ge") and val is True) or (o in ("Lt", "Le") and val is False)
                        small = r[0] == "lit" and isinstance(r[2], int) and r[2] <= 2
                        if above and not small:
                            bad[(path.split("::")[-1], show_term(pathsum.strip_sites(c[1]))[:80])] = x
    ck.judge(not bad, "C12-L", "parser:no-upper-bound-on-input-length", "%d comparisons of an input length with a constant, none from above" % n,
             "a parser's verdict depends on the amount of input behind the unit: %s" % sorted(bad)[:3])


def rule_W(ck, lib, sk):
    """C12-W: a sub-parser's `Incomplete` means "the input ended" - which it can only know when what it is given reaches to
    the end of the input. Every application of a parser inside a parser is therefore on the enclosing parser's input or on
    a remainder of it (a suffix), never on a window cut out of it (`input[..n]`): at the end of a window a string or block
    would report Incomplete although the bytes behind it are there."""
    n = 0
    bad = {}
    for path, f in sorted(sk.fns.items()):
        if f.get("inp") is None:
            continue
        for x in f["exits"]:
            for (pid, inp, t, oc) in sk.apps_on_path(x, f["ps"]):
                if inp is None or (pid and pid[0] == "param"):
                    continue        # a predicate applied to a byte, not a parser applied to input
                n += 1
                a = pathsum.strip_sites(inp)
                if a == pathsum.strip_sites(f["inp"]):
                    continue
                try:
                    ok = sk.chain(inp, f["inp"], x, f["ps"]) is not None
                except RecursionError:
                    ok = False
                if not ok:
                    bad[(path.split("::")[-1], skeleton.pid_name(pid))] = show_term(a)[:160]
    ck.judge(not bad, "C12-W", "parser:applications-on-suffixes", "%d parser applications, each on the enclosing parser's input or a remainder of it" % n,
             "a parser is applied to something that is not a suffix of the enclosing parser's input: %s" % sorted(bad.items())[:3])
    ck.floor("C12-W", "parser applications examined", n, 60)


def eoi_fact(x, inp_terms=None, forward=False):
    """An end-of-input condition on the path: -> description or None.
    forward=True (used where the question is "was Incomplete raised under an end-of-input condition"): an empty parser
    remainder counts as one. For the converse question ("does an end-of-input test lead to Incomplete") it does not: a
    parser may find its remainder empty and still succeed (white space at the very end of the input)."""
    empt = {}
    fwd = None
    for c in x.conds:
        if c[0] == "is" and c[2] == PE + "Incomplete" and c[3] is True and c[1][0] == "payload" and c[1][2] == ERR:
            return "a sub-parser reported Incomplete (re-raised)"
        if c[0] == "is" and c[2] == SOME and c[3] is False and c[1][0] == "call" and c[1][1].split("::")[-1] in ("first", "split_first") and len(c[1][2]) == 1:
            return "%s() is None" % c[1][1].split("::")[-1]
        if forward and c[0] == "slicepat" and len(c) == 6 and c[3] is False and c[5] is True and looks_like_remainder(c[1]):
            fwd = fwd or "the remainder matches a slice pattern without rest: it ends after %d byte(s)" % (c[2] + c[4])
        if c[0] == "is" and c[2] == SOME and c[3] is False and pathsum.is_slice_get(c[1]) and looks_like_remainder(c[1][2][0]):
            return "get(range) is None: the remainder is shorter than needed"
        if c[0] == "true" and c[1][0] == "bin" and c[1][1] in ("Gt", "Ge", "Le") and (
                (c[1][1] == "Gt" and c[2] is True and c[1][3][0] == "call" and c[1][3][1].endswith("::len")) or
                (c[1][1] == "Ge" and c[2] is False and c[1][2][0] == "call" and c[1][2][1].endswith("::len")) or
                (c[1][1] == "Le" and c[2] is False and c[1][3][0] == "call" and c[1][3][1].endswith("::len"))):
            return "len() < needed"
        if c[0] == "true" and c[2] is True and c[1][0] == "bin" and c[1][1] == "Lt" and c[1][2][0] == "call" and c[1][2][1].endswith("::len"):
            return "len() < needed"
        if c[0] == "true" and c[2] is True and c[1][0] == "call" and c[1][1].endswith("::is_empty") and looks_like_remainder(c[1][2][0]):
            return "is_empty()"
        if c[0] == "true" and c[2] is True and c[1][0] == "call" and c[1][1].endswith("::is_empty") and c[1][2][0][0] == "tproj" and c[1][2][0][2] == 1:
            empt.setdefault(c[1][2][0][1], set()).add(1)
        if c[0] == "true" and c[2] is True and c[1][0] == "call" and c[1][1].endswith("::is_empty") and c[1][2][0][0] == "tproj" and c[1][2][0][2] == 0:
            empt.setdefault(c[1][2][0][1], set()).add(0)
        if c[0] == "empty" and c[2] is True and c[1][0] == "tproj":
            empt.setdefault(c[1][1], set()).add(c[1][2])
            if forward and c[1][2] == 0 and c[1][1][0] == "payload":
                fwd = "the remainder of a parser matches `[]` (is empty)"
        elif c[0] == "empty" and c[2] is True and looks_like_remainder(c[1]):
            return "the remainder matches `[]` (is empty)"
    for k, v in empt.items():
        if v >= {0, 1}:
            return "both the taken part and the remainder of a take_while are empty"
    return fwd


def looks_like_remainder(t):
    """A slice that is the input itself or what is left of it (not a taken/consumed part)."""
    if t[0] in ("param", "loopvar", "local"):
        return True
    if t[0] == "tproj" and t[2] == 0 and t[1][0] == "payload":
        return True
    if t[0] == "tproj" and t[2] == 1 and t[1][0] == "call" and t[1][1].endswith("::split_at"):
        return True
    if t[0] == "index" and t[2][0] == "struct" and t[2][1].endswith("RangeFrom"):
        return True
    return False


def rule_I(ck, lib, sk):
    n = 0
    for path, f in sorted(sk.fns.items()):
        for i, x in enumerate(f["exits"]):
            v = x.value
            if x.kind in ("return", "err") and v is not None and v[0] == "ctor" and v[1] == ERR and v[2][0] == ("ctor", PE + "Incomplete", ()):
                n += 1
                fact = eoi_fact(x, forward=True)
                ck.judge(fact is not None, "C12-I", "%s:incomplete#%d" % (path.split("::")[-1], i), "Incomplete raised under: %s" % fact,
                         "Incomplete is raised on a path without an end-of-input condition: %s" % pathsum.show_exit(x)[:400])
    ck.floor("C12-I", "Incomplete construction paths", n, 4)
    # who-may-construct: every expression naming the constructor is in a summarised parser function
    ctor_sites = 0
    for b in lib.facts["bodies"]:
        for xn in hir.walk(b["value"]):
            if xn.get("k") == "Path" and xn["res"].get("path") == PE + "Incomplete":
                ctor_sites += 1
                ck.judge(b["def"] in sk.fns or hir.base_path(b["def"]) in ctx.inline_helpers(lib), "C12-I", "ctor-site:%s" % b["def"].split("::")[-1], "constructed inside a parser", "ParseError::Incomplete constructed outside the parser functions: %s" % b["def"], hir.loc(xn))
    ck.floor("C12-I", "expressions constructing Incomplete", ctor_sites, 3)
    # converse: an end-of-input test of the input leads to Incomplete (never to a soft error / success)
    m = 0
    for path, f in sorted(sk.fns.items()):
        if path.endswith("::take_while"):
            continue
        for i, x in enumerate(f["exits"]):
            fact = eoi_fact(x)
            if fact and fact != "both the taken part and the remainder of a take_while are empty" and not fact.startswith("a sub-parser"):
                m += 1
                v = x.value
                ok = v is not None and v[0] == "ctor" and v[1] == ERR and v[2][0] == ("ctor", PE + "Incomplete", ())
                ck.judge(ok, "C12-I", "%s:eoi-test#%d" % (path.split("::")[-1], i), "%s -> Incomplete" % fact,
                         "end-of-input test (%s) does not lead to Incomplete but to %s %s" % (fact, x.kind, show_term(v) if v else ""))
    ck.floor("C12-I", "end-of-input tests", m, 2)


def rule_D(ck, lib, sk):
    n = 0
    seen = set()
    for path, f in sorted(sk.fns.items()):
        if f["kind"] != "direct" and not path.endswith(("arguments", "header")):
            continue
        ps = f["ps"]
        for x in f["exits"]:
            r = sk.exit_result(x)
            apps = sk.apps_on_path(x, ps)
            for j, (pid, inp, t, oc) in enumerate(apps):
                if pid[0] != "take_while" or (t[3], pid[1]) in seen:
                    continue
                if not r or r[0][0] != "ok":
                    continue
                seen.add((t[3], pid[1]))
                n += 1
                name = path.split("::")[-1]
                cls = pid[1]
                if cls is None:
                    ck.bad("C12-D", "%s:take_while@%d:class" % (name, n), "class of take_while is not computable", t[3])
                    continue
                if 10 not in cls:
                    ck.ok("C12-D", "%s:take_while#%d" % (name, n), "class %s excludes byte 10: stops before the terminator" % bytecls.show_set(cls), t[3])
                    continue
                # must be followed by a mandatory strict primitive on its remainder
                nxt = apps[j + 1] if j + 1 < len(apps) else None
                ok = nxt is not None and nxt[0][0] in ("tag", "satisfy") and nxt[1] == ("tproj", ("payload", t, OK, 0), 0) and nxt[3] is True
                # and its failure propagates in this function (no exit where it failed yet the function succeeded)
                if ok:
                    for y in f["exits"]:
                        for (p2, i2, t2, oc2) in sk.apps_on_path(y, ps):
                            if t2 == nxt[2] and oc2 is False:
                                ry = sk.exit_result(y)
                                if not (ry and ry[0][0] == "err" and ry[0][1] == ("payload", t2, ERR, 0)):
                                    ok = False
                ck.judge(ok, "C12-D", "%s:take_while#%d" % (name, n), "class contains 10 but a mandatory %s follows on the remainder" % (pid_name(nxt[0]) if nxt else "?"),
                         "take_while with a class containing byte 10 (%s) is not followed by a mandatory tag: it can succeed because the input ended" % bytecls.show_set(cls), t[3])
    ck.floor("C12-D", "take_while application sites", n, 5)
    peeks = [pk for pk in sk.direct_inspections(exempt=("take_while", "satisfy")) if not pk[1].endswith("::is_empty")]
    ck.judge(not peeks, "C12-D", "parser:no-direct-inspection", "outside the primitives the input is examined only through parser applications",
             "a parser looks at input bytes directly (its verdict may then depend on bytes behind the unit or on where the input ends): %s"
             % [(p.split("::")[-1], c.split("::")[-1], site, t) for p, c, site, t in peeks][:4], peeks[0][2] if peeks else None)


def rule_G(ck, lib, sk, rid):
    f = sk.fns.get(P + "parse")
    if not ck.anchor(rid, P + "parse", f):
        return
    n = 0
    for i, x in enumerate(f["exits"]):
        r = sk.exit_result(x)
        if r and r[0][0] == "ok":
            n += 1
            ch = sk.chain(sk.rem_of(r[0][1]), f["inp"], x, f["ps"])
            ok = ch is not None and any(c[0] == "strict" for c in ch)
            ck.judge(ok, rid, "parse:ok-exit#%d" % n, "remainder chain %s" % ([pid_name(c[1]) if c[1] and c[0] != "loop" else c[0] for c in ch] if ch else None),
                     "an accepted unit does not pass a strict consumer on the way to its remainder (chain %s): zero bytes may be consumed" % (ch,),
                     data=pathsum.show_exit(x)[:1200])
    ck.floor(rid, "Ok exits of parse", n, 2)


def rule_T(ck, lib, sk):
    """Nothing is examined behind the terminator: on every accepting path of parse the application that consumes the
    unit's terminator is the last parser application, and the returned remainder is its remainder."""
    f = sk.fns.get(P + "parse")
    if not ck.anchor("C12-T", P + "parse", f):
        return
    n = 0
    for i, x in enumerate(f["exits"]):
        r = sk.exit_result(x)
        if not (r and r[0][0] == "ok"):
            continue
        n += 1
        rem = sk.rem_of(r[0][1])
        apps = sk.apps_on_path(x, f["ps"])
        last = apps[-1] if apps else None
        ok = False
        why = "no parser application"
        if last is not None:
            pid, inp, t, oc = last
            want = ("tproj", ("payload", t, OK, 0), 0)
            term = pid in (("tag", 10), ("tag", 59), ("optional", ("tag", 10))) or (pid[0] == "satisfy" and pid[1] and set(pid[1]) <= {10, 59})
            ok = oc is True and rem == want and term
            why = "last application on the path is %s (%s), returned remainder %s" % (pid_name(pid), "ok" if oc else "failed" if oc is False else "?", "is its remainder" if rem == want else "is NOT its remainder")
        ck.judge(ok, "C12-T", "parse:terminator-last#%d" % n, "the terminator is consumed last and its remainder is returned",
                 "an accepting path of parse examines input behind the unit's terminator or does not return the terminator's remainder: %s" % why,
                 data=pathsum.show_exit(x)[:1500])
    ck.floor("C12-T", "Ok exits of parse", n, 2)
