"""C11 - lexical variations allowed by IEEE 488.2 do not change the meaning."""
import bytecls
import ctx
import hir
import pathsum
import skeleton
import c01
from pathsum import ERR, OK, SOME, St, show_term
from skeleton import P, pid_name

RERUN_ON_CONFIGS = ("dfm", "std")
LEVEL = "other"
RULE_TEXT = ("C11-R covers the whole of run, the statements in front of the unit loop included (the buffer as given). C11-W: is_whitespace denotes exactly {0..=9} U {11..=32} (set equality over all 256 bytes) and every "
             "white-space recogniser in the grammar is that one; C11-P: the success skeleton of parse (sequence of "
             "sub-parser applications along the remainder chain of every Ok path) is exactly "
             "ws? ( NL | header '?'? (ws args?)? ws? (NL | ';') ), separators are ws? ',' ws? and ws? ':' ws?, with "
             "remainders threaded; C11-C: every class used in headers and numbers is closed under ASCII case swap, "
             "mnemonic classes are [A-Za-z] and [A-Za-z0-9_]; child lookup is case-insensitive on whole names (C01-M) "
             "and short and long forms are both in the trie (C01-T)."
             " C11-PR: the contracts of the parser combinators the skeleton builds on are read from their bodies - satisfy (accept first byte iff pred / soft error / Incomplete on empty), take_while (never fails; longest prefix, position() form or counting-loop form), optional (never fails; Some(value) or input untouched), tag(b) = satisfy(== b)."
             " C11-R: run examines the bytes of its input through parse only (and, behind a failed parse, to find the terminator) - no test on raw bytes in front of the parser's white-space handling. C11-C03V: character program data reaches a handler only through a case-ignoring conversion (the conversion table of C03)."
             " C11-K: the buffer discipline of process (K1-K8): only the newline byte ends a message when streaming, and bytes reach run unchanged.")

WS = frozenset(list(range(0, 10)) + list(range(11, 33)))


def swapcase_closed(s):
    for b in s:
        if 65 <= b <= 90 and (b + 32) not in s:
            return False
        if 97 <= b <= 122 and (b - 32) not in s:
            return False
    return True


def tok(c):
    tag, pid = c[0], c[1]
    if tag == "loop":
        return "loop"
    if pid and pid[0] == "optional":
        return "opt(" + tok((tag, pid[1])) + ")"
    if pid and pid[0] == "tag":
        return "tag(%s)" % {10: "NL", 59: ";", 63: "?", 44: ",", 58: ":"}.get(pid[1], str(pid[1]))
    if pid and pid[0] in ("fn", "factory"):
        return pid[1].split("::")[-1]
    return pid_name(pid) if pid else tag


def run(ck):
    ck.trust("rustc HIR/typeck", "factdump", "pathsum", "bytecls evaluator")
    ck.assume("equality of behaviour of two concrete variants follows from the grammar facts decided here")
    lib = ctx.lib(ck)
    if lib is None:
        return
    sk = skeleton.Skeleton(ck, lib)
    # the meaning of the parser combinators the skeleton is built from, read from their own bodies
    import primitives
    primitives.check(ck, lib, sk, "C11-PR")
    # ---- W
    ws = bytecls.denote_fn(lib, P + "is_whitespace")
    ck.judge(ws == WS, "C11-W", "is_whitespace:denotation", "is_whitespace = %s" % bytecls.show_set(ws),
             "is_whitespace denotes %s, IEEE 488.2 white space is %s (difference: %s)" % (bytecls.show_set(ws), bytecls.show_set(WS), sorted((ws or frozenset()) ^ WS)))
    f = sk.fns.get(P + "whitespace")
    if ck.anchor("C11-W", P + "whitespace", f):
        classes = set()
        for x in f["exits"]:
            for (pid, inp, t, oc) in sk.apps_on_path(x, f["ps"]):
                classes.add(pid)
        ok = classes == {("take_while", WS)}
        ck.judge(ok, "C11-W", "whitespace:uses-is_whitespace", "whitespace = take_while(is_whitespace), non-empty", "whitespace recogniser applies %s" % [pid_name(p) for p in classes])
        # success requires a non-empty taken part; 13 (CR) is white space
        ck.judge(13 in (ws or ()), "C11-W", "whitespace:cr", "CR (13) is white space, so CR LF ends a message like LF", "CR is not white space")

    # ---- P: parse skeleton.  The language of effective skeletons (sequences of *successful* consumers along the
    # remainder chain; an optional(X) whose outcome is not inspected stands for both "X" and "nothing") of all accepting
    # paths must equal the language of  ws? ( NL | header '?'? (ws args?)? ws? (NL | ';') ).
    fp = sk.fns.get(P + "parse")
    if ck.anchor("C11-P", P + "parse", fp):
        spec = set()
        for ws0 in ((), ("whitespace",)):
            spec.add(ws0 + ("tag(NL)",))
            for q in ((), ("tag(?)",)):
                for args in ((), ("whitespace",), ("whitespace", "arguments")):
                    for ws1 in ((), ("whitespace",)):
                        for term in ("tag(NL)", "tag(;)"):
                            spec.add(ws0 + ("command_program_header",) + q + args + ws1 + (term,))
        # "ws ws" cannot be told from "ws" by the grammar either: white space runs are maximal. Normalise both sides.

        def norm(seq):
            out = []
            for t in seq:
                if t == "whitespace" and out and out[-1] == "whitespace":
                    continue
                out.append(t)
            return tuple(out)
        spec = {norm(x) for x in spec}
        impl = set()
        n = 0
        for i, x in enumerate(fp["exits"]):
            r = sk.exit_result(x)
            if not (r and r[0][0] == "ok"):
                continue
            n += 1
            ch = sk.chain(sk.rem_of(r[0][1]), fp["inp"], x, fp["ps"])
            if ch is None:
                ck.bad("C11-P", "parse:skeleton#%d" % n, "remainder of an accepting path is not suffix-derived", data=pathsum.show_exit(x)[:800])
                continue
            seqs = [()]
            for c in ch:
                t = tok(c)
                if t.startswith("opt(") and c[1] and c[1][0] == "optional":
                    inner = tok((c[0], c[1][1]))
                    some = None
                    if len(c) > 2:
                        some = fp["ps"].decided(St(x.conds), ("tproj", ("payload", c[2], OK, 0), 1), SOME)
                    if some is True:
                        seqs = [q + (inner,) for q in seqs]
                    elif some is None:
                        seqs = [q + (inner,) for q in seqs] + seqs
                elif c[1] and c[1][0] == "satisfy" and c[1][1] and len(c[1][1]) <= 4:
                    # a one-byte recogniser over a small class is the alternation of the tags of its bytes
                    seqs = [q + (tok((c[0], ("tag", b))),) for q in seqs for b in sorted(c[1][1])]
                else:
                    seqs = [q + (t,) for q in seqs]
            mine = {norm(q) for q in seqs}
            impl |= mine
            extra = mine - spec
            ck.judge(not extra, "C11-P", "parse:skeleton#%d" % n, "accepting path: %s" % " ".join(tok(c) for c in ch),
                     "an accepting path of parse consumes `%s`, which is not an instance of ws? (NL | header ?? (ws args?)? ws? (NL|;))" % [" ".join(q) for q in sorted(extra)][:3],
                     data=pathsum.show_exit(x)[:1500])
        missing = spec - impl
        ck.judge(not missing, "C11-P", "parse:skeleton-complete", "all %d grammar alternatives are accepted" % len(spec),
                 "grammar alternatives that no accepting path consumes (white space no longer optional there, or an alternative was removed): %s" % [" ".join(q) for q in sorted(missing)][:6])
        ck.floor("C11-P", "Ok exits of parse", n, 2)
    peeks = sk.direct_inspections()
    ck.judge(not peeks, "C11-P", "parser:no-direct-inspection", "input is examined only through parser applications (the skeleton is exact)",
             "input bytes are inspected directly, outside the parser combinators, so where white space / terminators are accepted no longer follows the grammar skeleton: %s"
             % [(p.split("::")[-1], c.split("::")[-1], site, t) for p, c, site, t in peeks][:4], peeks[0][2] if peeks else None)
    for fn, sep in (("argument_separator", ","), ("header_separator", ":")):
        f = sk.fns.get(P + fn)
        if not ck.anchor("C11-P", P + fn, f):
            continue
        # the language the separator consumes (sub-parsers and helpers expanded): ws? sep ws?
        got = sk.language(("fn", P + fn))
        wsl = sk.language(("fn", P + "whitespace"))
        one = ("one", frozenset([ord(sep)]))
        want = None
        if wsl is not None:
            want = set()
            for a in [()] + sorted(wsl):
                for b in [()] + sorted(wsl):
                    want.add(tuple(a) + (one,) + tuple(b))

        def shw(q):
            return " ".join(("%s%s" % (bytecls.show_set(t[1]), "*" if t[0] == "many" else "")) for t in q) or "(nothing)"
        ck.judge(got is not None and want is not None and got == want, "C11-P", "%s:skeleton" % fn, "%s consumes ws? '%s' ws?" % (fn, sep),
                 "%s consumes %s, expected ws? '%s' ws?" % (fn, "a language that cannot be computed" if got is None else sorted(shw(q) for q in got)[:6], sep))

    # ---- C: case closure of header / number classes
    n = 0
    seen_sites = set()
    for path, f in sorted(sk.fns.items()):
        name = path.split("::")[-1]
        if name in ("satisfy", "take_while", "optional", "whitespace", "single_quoted_string_program_data", "double_quoted_string_program_data"):
            continue
        for x in f["exits"]:
            for (pid, inp, t, oc) in sk.apps_on_path(x, f["ps"]):
                # (an instance is a source site *with its class*: one parametrised helper evaluated in place for several
                # radixes or quotes is several instances)
                if pid[0] in ("satisfy", "take_while", "tag") and (t[3], pid[1]) not in seen_sites:
                    seen_sites.add((t[3], pid[1]))
                    cls = pid[1] if pid[0] != "tag" else (frozenset([pid[1]]) if pid[1] is not None else None)
                    n += 1
                    if cls is None:
                        ck.bad("C11-C", "%s:class@%d" % (name, n), "class not computable", t[3])
                        continue
                    ck.judge(swapcase_closed(cls), "C11-C", "%s:%s#%d" % (name, pid[0], n), "%s closed under case swap" % bytecls.show_set(cls),
                             "class %s in %s is not closed under ASCII case swap: upper and lower case spellings are treated differently" % (bytecls.show_set(cls), name), t[3])
    ck.floor("C11-C", "byte classes in header/number parsers", n, 15)
    f = sk.fns.get(P + "program_mnemonic")
    if ck.anchor("C11-C", P + "program_mnemonic", f):
        alpha = frozenset(list(range(65, 91)) + list(range(97, 123)))
        rest = alpha | frozenset(range(48, 58)) | {95}
        got = []
        for x in f["exits"]:
            r = sk.exit_result(x)
            if r and r[0][0] == "ok":
                got = [pid for (pid, _, _, _) in sk.apps_on_path(x, f["ps"])]
        ok = len(got) == 2 and got[0] == ("satisfy", alpha) and got[1] == ("take_while", rest)
        ck.judge(ok, "C11-C", "program_mnemonic:classes", "mnemonic = [A-Za-z][A-Za-z0-9_]*", "mnemonic classes are %s" % [pid_name(p) for p in got])
    # case-insensitive whole-name child lookup
    c01.rule_M(ck, lib)
    # short and long forms (and only those) are in the emitted trie, bound to the same handler
    c01.rule_T(ck, T="C11-T", D="C11-D")
    rule_R(ck, lib)
    # character program data reaches a handler only through a conversion that ignores its case (ON/OFF -> bool): the
    # conversion table of C03 (a `&str` parameter is string data only) - necessary if "the case of mnemonics" includes
    # the mnemonics sent as character data
    import c03
    with ck.under("C03-", "C11-C03"):
        c03.rule_V(ck, lib)
    # CR (like every white-space byte) may stand inside a message: what ends a message when streaming is decided by
    # process's scan for the newline byte alone, and the bytes reach run unchanged (the K-rules of C07)
    import c07
    c07.rule_K(ck, lib, "C11-K")


def rule_R(ck, lib, rid="C11-R"):
    """C11-R: the grammar - where white space is allowed, what separates units - is the parser's. `run` looks at the bytes
    of its input only through `parse` (and its emptiness), except to find the terminator after `parse` has failed; a test
    on the raw bytes in front of `parse` (skip a leading ';', a fast path for a known header) sees the input before white
    space has been skipped and so depends on it."""
    import runsum
    rs = runsum.RunSummary(ck, lib)
    if not rs.ok:
        return
    S = pathsum.strip_sites
    inp_ids = {rs.input_id}
    # the buffer as it was given (before the unit loop): the byte-slice parameters of run
    rb = lib.body(runsum.RUN)
    slice_params = {p_.get("name") for p_ in (rb or {}).get("params", []) if p_.get("k") == "Bind" and "[u8]" in (p_.get("ty") or "")}

    def is_input(t):
        t = S(t)
        while isinstance(t, tuple) and t and t[0] == "call" and t[1].split("::")[-1] in ("iter", "as_ref", "as_slice", "borrow") and len(t[2]) == 1:
            t = t[2][0]
        # the input itself, or what parse left of it (the remainder behind the unit)
        return isinstance(t, tuple) and len(t) > 1 and ((t[0] in ("loopvar", "local") and t[1] in inp_ids) or t == S(rs.input_arg) or (rs.rem is not None and t == S(rs.rem))
                                                        or (t[0] == "param" and t[1] in slice_params))
    bad = {}
    n = 0
    for x in rs.exits:
        d = rs.classify(x)
        failed = False
        for e in x.effects:
            if e[0] == "call" and e[1] == "microscpi::parser::parse":
                failed = bool(d.get("parse_err"))
                n += 1
                continue
            if failed:
                continue        # behind a failed parse: the search for the terminator (judged by C06-R)
            if e[0] == "call" and e[2] and any(is_input(a) for a in e[2]):
                nm = e[1].split("::")[-1]
                if nm not in ("is_empty", "len", "iter"):
                    bad[(nm, str(e[3]) if len(e) > 3 else "")] = e
            if e[0] == "index" and is_input(e[1]) and e[2][0] == "lit":
                bad[("index by constant", str(e[3]) if len(e) > 3 else "")] = e
    ck.judge(not bad, rid, "run:input-only-through-parse", "run examines its input through parse only (and, after a failed parse, to find the terminator)",
             "run looks at the raw bytes of its input outside parse: %s" % sorted(k[0] for k in bad), loc=(sorted(bad)[0][1] if bad else None))
    ck.floor(rid, "parse calls on the paths of run", n, 4)
