"""C14 - ambiguous command sets are rejected at compile time, never shadowed."""
import random

import ctx
import hir
import pathsum
import witness
from pathsum import ERR, NONE, OK, SOME, show_term
from witness import S

LEVEL = "other"
RULE_TEXT = ("C14-S also: inside the tree module paths() and is_query() are asked of the same header of a declaration (spellings are filed under their own kind). C14-W compile-fail witnesses: colliding declaration pairs produced by the oracle (identical spellings, "
             "short = long, optional-node induced, user vs requested standard command, random pairs sharing one expanded "
             "spelling) must fail inside #[microscpi::interface] with CommandExists for commands / QueryExists for queries; "
             "each has a twin differing only in the colliding spelling that must build (so a witness failing for another "
             "reason is exposed); further controls: command+query on one node, same mnemonic on several levels, one "
             "declaration whose own expansions overlap. C14-S structural rules on the macro crate: insert_at writes a leaf "
             "slot only where it was None and returns Err of the matching kind where occupied, slot choice follows "
             "is_query; insert hands every expanded path to insert_at and returns its result; interface consumes the "
             "result by unwrap/expect/?/match; children are keyed by the whole part."
             " C14-T/C14-D: on every witness interface each declared spelling reaches its own handler and the dispatcher has one arm with a distinct key per declaration (rules C01-T/D) - no declaration is shadowed by a colliding id."
             " C14-C01M: the run-time lookup matches a mnemonic against a key by eq_ignore_ascii_case and nothing looser (rule C01-M), the relation the compile-time collision test uses."
             " C14-W controls also cover a declaration whose own spellings repeat (an optional mnemonic twice, with distinct short/long forms, with another optional level in between): it must build.")

INSERT_AT = "microscpi_macros::tree::Tree::insert_at"
INSERT = "microscpi_macros::tree::Tree::insert"
IFACE = "microscpi_macros::interface"


def mk(mod, decls, flags=()):
    return {"mod": mod, "flags": list(flags), "decls": [S.d(c, "h%d" % i) for i, c in enumerate(decls)]}


def hand_cases():
    """(name, colliding decls, twin decls, flags)"""
    return [
        ("identical_cmd", ["A:B", "A:B"], ["A:B", "A:C"], ()),
        ("identical_qry", ["A:B?", "A:B?"], ["A:B?", "A:C?"], ()),
        ("short_is_long", ["VAL", "VALue"], ["VAL", "VOLue"], ()),
        ("short_is_long_q", ["SYSTem:VAL?", "SYST:VALue?"], ["SYSTem:VAL?", "SYST:VOLue?"], ()),
        ("case_only", ["VALue", "VALUE"], ["VALue", "VALUEX"], ()),
        ("optional_first", ["[A]:B", "B"], ["[A]:B", "C"], ()),
        ("optional_two", ["[A]:[B]:C?", "B:C?"], ["[A]:[B]:C?", "B:D?"], ()),
        ("optional_middle", ["A:[B]:C", "A:C"], ["A:[B]:C", "A:D"], ()),
        ("optional_last", ["A:B:[C]?", "A:B?"], ["A:B:[C]?", "A:D?"], ()),
        ("std_version", ["SYSTem:VERSion?"], ["SYSTem:VERTion?"], ("StandardCommands",)),
        ("std_err_next_short", ["SYST:ERR?"], ["SYST:ERS?"], ("ErrorCommands",)),
        ("std_err_next_long", ["SYSTem:ERRor:NEXT?"], ["SYSTem:ERRor:NEXU?"], ("ErrorCommands",)),
        ("std_err_count", ["SYSTem:ERRor:COUNt?"], ["SYSTem:ERRor:COUMt?"], ("ErrorCommands",)),
        ("common", ["*RST", "*RST"], ["*RST", "*RSU"], ()),
        # collides only through the short form, in both declaration orders
        ("short_vs_long_decl_first", ["FREQ:STEP?", "FREQuency:STEP?"], ["FREQ:STEP?", "FREQuency:STOP?"], ()),
        ("short_vs_long_decl_last", ["FREQuency:STEP?", "FREQ:STEP?"], ["FREQuency:STOP?", "FREQ:STEP?"], ()),
    ]


def controls():
    return [
        ("ctl_cmd_and_query", ["A:B", "A:B?"], ()),
        ("ctl_same_mnemonic_levels", ["A", "A:A", "A:A:A", "B:A"], ()),
        ("ctl_std_command_variant", ["SYSTem:VERSion"], ("StandardCommands",)),
        ("ctl_short_long_disjoint", ["VALue?", "VALU?"], ()),
        # `_` is a mnemonic character: headers that differ only in where the level boundary falls are different headers
        ("ctl_underscore_boundary", ["TRIG_A:LEVel?", "TRIG:A_LEVel?", "TRIG_A_LEVel?"], ()),
        ("ctl_underscore_prefix", ["CH_1:ON", "CH:_1ON", "CH_:X1"], ()),
        # same short form prefix, different long forms
        ("ctl_short_prefix", ["FREQuency:STEP?", "FREQUEnz:STEP?", "FREQ2:STEP?"], ()),
    ]


def generated_pairs(seed, n):
    """Random colliding pairs: d2 is one expanded spelling of d1 written out in capitals; the twin alters its last mnemonic."""
    rng = random.Random(seed * 7919 + 17)
    out = []
    tries = 0
    while len(out) < n and tries < n * 40:
        tries += 1
        depth = rng.randint(1, 4)
        parts = []
        mand = rng.randrange(depth)
        for j in range(depth):
            m = S.rand_mnemonic(rng)
            if j != mand and rng.random() < 0.4:
                m = "[" + m + "]"
            parts.append(m)
        q = "?" if rng.random() < 0.5 else ""
        d1 = ":".join(parts) + q
        paths, kind = S.oracle_paths(d1)
        if len(set(paths)) != len(paths) or () in paths:
            continue
        p = rng.choice(paths)
        d2 = ":".join(p) + q
        twin = ":".join(p[:-1] + (p[-1] + "ZQ",)) + q
        _, c1 = S.language([S.d(d1, "a"), S.d(d2, "b")])
        _, c2 = S.language([S.d(d1, "a"), S.d(twin, "b")])
        if not c1 or c2:
            continue
        out.append(("gen%03d" % len(out), [d1, d2], [d1, twin], ()))
    return out


def run(ck):
    ck.trust("rustc (compile outcome)", "the oracle in witness/specs.py")
    ck.assume("collisions outside the generated families are covered by the structural rules C14-S only")
    rule_S(ck)
    # "a declaration is never silently shadowed by another": on every witness interface each declared spelling reaches
    # its own handler - distinct match keys, one arm per declaration (the dispatcher rules C01-T/D)
    import c01
    c01.rule_T(ck, T="C14-T", D="C14-D")
    # the compile-time collision test compares spellings exactly (ignoring case); it decides reachability only if the
    # run-time lookup uses the same relation - Node::child matches a mnemonic against a key by eq_ignore_ascii_case and
    # nothing looser (rule C01-M)
    lib = ctx.lib(ck)
    if lib is not None:
        with ck.under("C01-", "C14-C01"):
            c01.rule_M(ck, lib)
    n = 200 if ck.tier == "thorough" else 30
    cases = hand_cases() + generated_pairs(ck.seed, n)
    specs = []
    expect = {}
    for (name, bad, twin, flags) in cases:
        sb = mk("c_" + name, bad, flags)
        st = mk("t_" + name, twin, flags)
        lang, coll = S.language(S.full_decls(sb))
        lang2, coll2 = S.language(S.full_decls(st))
        if not coll or coll2:
            ck.bad("C14-W", "case:%s:oracle" % name, "case generator inconsistent with the oracle (colliding=%s twin=%s)" % (bool(coll), bool(coll2)))
            continue
        # the macro reports the first collision in insertion order: kinds present among the collisions
        kinds = {("QueryExists" if k[1] == "query" else "CommandExists") for (k, _, _) in coll}
        specs += [sb, st]
        expect[sb["mod"]] = ("fail", kinds, bad, flags)
        expect[st["mod"]] = ("build", None, twin, flags)
    # handlers under `#[cfg(..)]` attributes that both hold: still two handlers for one header
    for (nm, dd, want) in (("c_cfg_gated", ["SYSTem:LOG:LEVel?", "SYSTem:LOG:LEVel?"], "fail"), ("t_cfg_gated", ["SYSTem:LOG:LEVel?", "SYSTem:LOG:RATE?"], "build")):
        sp = mk(nm, dd, ())
        sp["decls"][0]["attrs"] = ['#[cfg(not(feature = "verif_absent_a"))]']
        sp["decls"][1]["attrs"] = ['#[cfg(not(feature = "verif_absent_b"))]']
        specs.append(sp)
        expect[sp["mod"]] = (want, {"QueryExists"} if want == "fail" else None, dd, ())
    for (name, decls, flags) in controls():
        sp = mk(name, decls, flags)
        _, coll = S.language(S.full_decls(sp))
        if coll:
            ck.bad("C14-W", "case:%s:oracle" % name, "control has a collision per the oracle")
            continue
        specs.append(sp)
        expect[sp["mod"]] = ("build", None, decls, flags)
    # a single declaration whose own expansions overlap: no two handlers collide -> must build
    # (also with distinct short and long forms, and with another optional level in between, where the repeated spellings
    # are not neighbours in the order the macro generates them)
    for nm, dd in (("ctl_self_overlap", ["[A]:[A]:X"]), ("ctl_self_overlap_forms", ["[ROUTe]:[ROUTe]:CLOSe", "OTHer?"]),
                   ("ctl_self_overlap_apart", ["[SENSe]:[VOLTage]:[SENSe]:RANGe?", "[SENSe]:[VOLTage]:[SENSe]:RANGe"])):
        selfdup = mk(nm, dd, ())
        specs.append(selfdup)
        expect[selfdup["mod"]] = ("build", None, dd, ())

    rc, per, other = witness.compile_cases(ck, specs)
    if other:
        ck.bad("C14-W", "cases:unattributed-errors", "errors outside any case module: %s" % other[0][:500])
    nfail = nbuild = 0
    for mod, (want, kinds, decls, flags) in sorted(expect.items()):
        errs = per.get(mod, [])
        if want == "fail":
            nfail += 1
            inmacro, got = collision_errors(errs)
            ok = bool(inmacro) and bool(got & kinds) and got <= kinds
            ck.judge(ok, "C14-W", "case:%s:rejected" % mod, "%s %s rejected inside the macro with %s" % (decls, list(flags), sorted(got)),
                     "colliding declarations %s %s: %s" % (decls, list(flags), ("compile without error (one handler is silently shadowed)" if not errs else
                                                           "fail, but not with %s inside the macro: %s" % (sorted(kinds), errs[0][:300]))))
        else:
            nbuild += 1
            ck.judge(not errs, "C14-W", "case:%s:builds" % mod, "%s %s builds" % (decls, list(flags)),
                     "collision-free declarations %s %s do not build: %s" % (decls, list(flags), errs[0][:400] if errs else ""))
    ck.floor("C14-W", "colliding cases", nfail, 14 + min(n, 25))
    ck.floor("C14-W", "building twins/controls", nbuild, 14 + min(n, 25))
    ck.extra.update({"programs": len(expect), "colliding_cases": nfail, "building_cases": nbuild})


def collision_errors(errs):
    """The errors of one case module that are the macro's rejection of a collision, and the kinds they name. Two forms: the
    macro panics with the Debug text of its error (`custom attribute panicked ... CommandExists`), or it emits a diagnostic
    of its own (an error without a compiler error code) that says which kind of handler already exists."""
    import re
    inmacro = []
    got = set()
    for e in errs:
        ks = set()
        if "custom attribute panicked" in e:
            ks = {k for k in ("CommandExists", "QueryExists") if k in e}
        elif not re.search(r"error\[E\d+\]", e):
            for m in re.finditer(r"(?i)\b(command|query)\b[^.\n`]{0,30}\bexists?\b|\b(Command|Query)Exists\b", e):
                w = (m.group(1) or m.group(2)).lower()
                ks.add("QueryExists" if w == "query" else "CommandExists")
        if ks:
            inmacro.append(e)
            got |= ks
    return inmacro, got


def rule_S(ck):
    """Structural rules on the macro crate (supplementary to the compile-fail witnesses C14-W: where the code has a shape
    these rules do not read, they record "not evaluated" instead of a verdict).  They quantify over all functions of
    tree.rs, not over one named function, so that splitting or merging helpers does not matter."""
    m = ctx.macros(ck)
    if m is None:
        return
    TERR = "microscpi_macros::tree::Error"
    # the collision error type: the enum of the macro crate with the variants CommandExists / QueryExists (the variant names
    # are what the user reads in the compile error; the enum's own name and module are free)
    for e_ in m.facts.get("enums", []):
        if {"CommandExists", "QueryExists"} <= {v_["name"] for v_ in e_["variants"]}:
            TERR = e_["path"]
    tree_fns = [b for b in m.facts["bodies"] if b["def"].startswith("microscpi_macros::tree::") and b["kind"] in ("Fn", "AssocFn") and "::{" not in b["def"] and not b.get("trait")]
    result_fns = {hir.base_path(b["def"]) for b in m.facts["bodies"] if TERR in (b.get("ret") or "")}
    n_store = n_occ = n_prop = 0
    keyed = None
    unsupported = []
    for b in tree_fns:
        try:
            ex, ps = ctx.summarize(m, b["def"], ck)
        except pathsum.Unsupported as u:
            unsupported.append("%s: %s" % (b["def"], u))
            continue
        name = b["def"].split("::")[-1]
        # the vacancy rule concerns the functions that fill leaf slots; one that only reads them (to compare or merge
        # finished subtrees, to emit them) occupies nothing
        writes_slots = any(e[0] == "store" and e[1][0] == "field" and e[1][2] in ("query", "command") for x in ex for e in x.effects)
        for i, x in enumerate(ex):
            stores = [e for e in x.effects if e[0] == "store" and e[1][0] == "field" and e[1][2] in ("query", "command")]
            isq = None
            for c in x.conds:
                if c[0] == "true" and c[1][0] == "call" and c[1][1].endswith("::is_query"):
                    isq = c[2]
            for st in stores:
                n_store += 1
                slot = st[1]
                d = ps.decided(pathsum.St(x.conds), slot, SOME)
                want = "query" if isq else "command"
                ok = d is False and isq is not None and slot[2] == want and st[2][0] == "ctor" and st[2][1] == SOME
                ck.judge(ok, "C14-S", "%s:store#%d:%s" % (name, n_store, slot[2]), "slot %s written only where it was None (is_query=%s)" % (slot[2], isq),
                         "leaf slot `%s` is written %s (is_query=%s)" % (slot[2], "without a vacancy test" if d is None else "although occupied" if d else "but the kind does not match", isq),
                         data=pathsum.show_exit(x)[:1500])
            for c in x.conds:
                if not writes_slots:
                    break
                if c[0] == "is" and c[2] == SOME and c[3] and c[1][0] == "field" and c[1][2] in ("query", "command") and c[1][1][0] != "param":
                    n_occ += 1
                    want = ("ctor", ERR, (("ctor", TERR + "::" + ("QueryExists" if c[1][2] == "query" else "CommandExists"), ()),))
                    # the variant decides; it may carry a payload (the name of the declaration already there, for the diagnostic)
                    v_ = x.value
                    same_variant = (v_ is not None and v_[0] == "ctor" and v_[1] == ERR and len(v_[2]) == 1 and v_[2][0][0] == "ctor" and v_[2][0][1] == want[2][0][1])
                    ok = x.kind in ("return", "err") and same_variant and not stores and (isq == (c[1][2] == "query"))
                    ck.judge(ok, "C14-S", "%s:occupied#%d:%s" % (name, n_occ, c[1][2]), "occupied %s slot -> %s" % (c[1][2], show_term(want)),
                             "occupied `%s` slot does not return the matching error: %s %s" % (c[1][2], x.kind, show_term(x.value)), data=pathsum.show_exit(x)[:1500])
            for e in x.effects:
                if e[0] == "call" and e[1].endswith("::entry") and len(e[2]) == 2:
                    if not any(u[0] == "field" and u[2] == "children" for u in pathsum.subterms(e[2][0]) if u):
                        continue        # a map of its own (e.g. an index of finished subtrees), not the children of a node
                    k = e[2][1]
                    while k[0] == "call" and k[1].split("::")[-1] in ("clone", "to_owned", "to_string", "into") and k[2]:
                        k = k[2][0]
                    whole = (k[0] == "payload" and k[2] == SOME and k[1][0] == "call" and k[1][1].split("::")[-1] in ("first", "next", "split_first")) or k[0] == "iter_item" \
                        or (k[0] == "tproj" and k[1][0] == "payload") or k[0] in ("param", "loopvar", "local")
                    if not whole:
                        ck.bad("C14-S", "%s:child-key" % name, "children keyed by %s, not by a whole path part" % show_term(k))
                        keyed = False
                    elif keyed is None:
                        keyed = True
            # no tree::Error is dropped on the way up
            for e in x.effects:
                if e[0] == "call" and e[1] in result_fns:
                    t = ("call",) + tuple(e[1:])
                    d = ps.decided(pathsum.St(x.conds), t, OK)
                    if d is False:
                        n_prop += 1
                        ok = x.kind in ("err", "return") and x.value == ("ctor", ERR, (("payload", t, ERR, 0),))
                        ck.judge(ok, "C14-S", "%s:error-of-%s#%d" % (name, e[1].split("::")[-1], n_prop), "collision error of %s is propagated" % e[1].split("::")[-1],
                                 "the collision error returned by %s is dropped: %s" % (e[1].split("::")[-1], pathsum.show_exit(x)[:300]))
                    elif d is None and not (x.kind in ("return", "err") and x.value == t):
                        ck.bad("C14-S", "%s:result-of-%s#%d" % (name, e[1].split("::")[-1], i), "the result of %s is not inspected (a collision would be ignored)" % e[1].split("::")[-1],
                               data=pathsum.show_exit(x)[:600])
    for u in unsupported:
        ck.skip("C14-S", "tree:unsupported", u)
    if n_store < 2 or n_occ < 2:
        ck.skip("C14-S", "tree:shape", "tree.rs does not have the slot-store shape this supplementary rule reads (%d stores, %d occupied-slot paths); collisions are decided by C14-W" % (n_store, n_occ))
    if keyed:
        ck.ok("C14-S", "tree:child-key", "children keyed by whole path parts")
    # every expanded path is inserted: the function that iterates paths() must not truncate or filter it
    n_iter = 0
    for b in tree_fns + [bb for bb in m.facts["bodies"] if bb["def"].startswith("microscpi_macros::") and bb["kind"] in ("Fn", "AssocFn") and bb not in tree_fns and "::{" not in bb["def"]]:
        src = hir.show(b["value"])
        if "paths()" in src and "command.rs" not in (b["sp"][0] if b.get("sp") else ""):
            n_iter += 1
            bad = [w for w in (".take(", ".skip(", ".first()", ".last()", ".next()", ".nth(", ".step_by(", ".filter(", ".take_while(", ".skip_while(") if w in src]
            ck.judge(not bad, "C14-S", "%s:all-paths" % b["def"].split("::")[-1], "iterates all of paths()", "not every expanded path is inserted: %s" % bad, hir.loc(b["value"]))
    if n_iter == 0:
        ck.skip("C14-S", "insert:paths-iteration", "no function iterating Command::paths() found; decided by C14-W")
    # the spellings entered for a declaration and the kind of slot they occupy come from one and the same header: inside
    # the tree module `paths()` and `is_query()` are asked of the same field of the declaration. Spellings taken from
    # another header (an alias, a legacy form) but filed under the kind of the primary one occupy the wrong slot - the
    # collision with a handler of their real kind goes unnoticed and a collision-free set is refused.
    def chain(e, lets=None):
        ch = []
        hops = 0
        while isinstance(e, dict):
            k_ = e.get("k")
            if k_ == "Path" and lets and (e.get("res") or {}).get("r") == "Local" and e["res"].get("id") in lets and hops < 8:
                e = lets[e["res"]["id"]]        # a local bound by `let x = <expr>`: the expression it stands for
                hops += 1
                continue
            if k_ in ("AddrOf", "Unary", "Try", "Paren", "DropTemps"):
                e = e.get("e")
            elif k_ == "MethodCall" and e["name"] in ("clone", "as_ref", "borrow", "deref", "as_deref", "iter"):
                e = e["recv"]
            elif k_ == "Field":
                ch.append(e["name"])
                e = e["e"]
            else:
                break
        return tuple(reversed(ch))
    src_paths, src_kind = {}, {}
    for b in m.facts["bodies"]:
        if not b["def"].startswith("microscpi_macros::tree::"):
            continue
        lets = {}
        for x in hir.walk(b["value"]):
            for st_ in (x.get("stmts") or []) if x.get("k") == "Block" else ():
                if isinstance(st_, dict) and st_.get("k") == "Let" and st_.get("init") and (st_.get("pat") or {}).get("k") == "Bind":
                    lets[st_["pat"].get("id")] = st_["init"]
        for x in hir.walk(b["value"]):
            if x.get("k") == "MethodCall" and (x.get("callee") or "").endswith("::Command::paths"):
                src_paths.setdefault(chain(x["recv"], lets), hir.loc(x))
            if x.get("k") == "MethodCall" and (x.get("callee") or "").endswith("::Command::is_query"):
                src_kind.setdefault(chain(x["recv"], lets), hir.loc(x))
    if src_paths and src_kind and all(src_kind):
        for ch_, loc_ in sorted(src_paths.items()):
            ck.judge(ch_ in src_kind, "C14-S", "tree:spellings-and-kind-from-one-header:%s" % (".".join(ch_) or "<other value>"),
                     "paths() and is_query() are asked of the same header (.%s)" % ".".join(ch_),
                     "spellings are taken from %s but the slot kind from %s: spellings of another header are filed under the kind of this one (a collision in their own kind goes unnoticed)"
                     % ("." + ".".join(ch_) if ch_ else "a header that is not a field of the declaration", sorted("." + ".".join(k_) for k_ in src_kind)), loc_)
    else:
        ck.skip("C14-S", "tree:spellings-and-kind-from-one-header", "paths()/is_query() are not both called on fields of the declaration inside the tree module; decided by C14-W")
    # interface(): the result of the insertion is consumed (unwrap / expect / ? / match), never discarded
    n = 0
    for b in m.facts["bodies"]:
        if b["kind"] not in ("Fn", "AssocFn") or b["def"].startswith("microscpi_macros::tree::"):
            continue
        root = b["value"]
        pm = None
        for x in hir.walk(root):
            if x.get("k") in ("MethodCall", "Call") and hir.base_path(x.get("callee") or "") in result_fns:
                if pm is None:
                    pm = ctx.parent_map(root)
                n += 1
                p = pm.get(id(x))
                while p is not None and (p.get("k") in ("Closure", "Block", "Try") or (p.get("k") == "MethodCall" and p["name"] in ("try_for_each", "map", "collect", "and_then"))):
                    if p.get("k") == "Try":
                        break
                    if p.get("k") == "Block":
                        # statement position inside a block = discarded, unless it is the block's value
                        if p.get("expr") is None or not any(id(y) == id(x) for y in hir.walk(p["expr"])):
                            break
                    p = pm.get(id(p))
                consumed = p is not None and ((p.get("k") == "MethodCall" and p["name"] in ("unwrap", "expect", "unwrap_or_else", "map_err")) or p.get("k") in ("Try", "Match", "If", "LetCond"))
                ck.judge(consumed, "C14-S", "%s:insert-result#%d" % (b["def"].split("::")[-1], n), "result of the insertion reaches %s" % ((p.get("name") or p.get("k")) if p else None),
                         "the result of the insertion is discarded in %s (%s): a collision would be silently ignored" % (b["def"].split("::")[-1], hir.show(p)[:160] if p else "statement"), hir.loc(x))
    if n == 0:
        ck.skip("C14-S", "interface:insert-call", "no call of a tree-insertion function outside tree.rs found; decided by C14-W")
