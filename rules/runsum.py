"""Classification of the path summaries of Interface::run (shared by C02, C05, C06, C08)."""
import ctx
from pathsum import ERR, NONE, OK, SOME, St, show_term, strip_sites, subterms

RUN = "microscpi::interface::Interface::run"
PARSE = "microscpi::parser::parse"
ROOT = "microscpi::interface::Interface::root_node"
EXECUTE = "microscpi::interface::Interface::execute"
HANDLE = "microscpi::interface::ErrorHandler::handle_error"
INCOMPLETE = "microscpi::parser::ParseError::Incomplete"


def is_root(t):
    return isinstance(t, tuple) and t and t[0] == "call" and t[1] == ROOT and t[2] and t[2][0] == ("param", "self")


class RunSummary:
    def __init__(self, ck, lib):
        self.ok = False
        self.exits, self.ps = ctx.summarize(lib, RUN, ck)
        if self.exits is None:
            ck.bad("anchor", "anchor:" + RUN, "Interface::run not found")
            return
        # the parse call and the loop it is in
        self.parse_terms = set()
        for x in self.exits:
            for e in x.effects:
                if e[0] == "call" and e[1] == PARSE:
                    self.parse_terms.add(("call", e[1], e[2], e[3]))
        if len(self.parse_terms) != 1:
            ck.bad("anchor", "anchor:run:parse-call", "expected exactly one call of parser::parse in run, found %d" % len(self.parse_terms))
            return
        self.r = next(iter(self.parse_terms))
        args = self.r[2]
        if len(args) != 3:
            ck.bad("anchor", "anchor:run:parse-args", "parse called with %d arguments" % len(args))
            return
        self.root_arg, self.path_arg, self.input_arg = args
        self.path_id = self.path_arg[1] if self.path_arg[0] in ("loopvar", "local") else None
        self.input_id = self.input_arg[1] if self.input_arg[0] in ("loopvar", "local") else None
        self.loop_site = self.path_arg[3] if self.path_arg[0] == "loopvar" else (self.input_arg[3] if self.input_arg[0] == "loopvar" else None)
        r = self.r
        self.okp = ("payload", r, OK, 0)
        self.rem = ("tproj", self.okp, 0)
        self.callopt = ("tproj", self.okp, 1)
        self.call = ("payload", self.callopt, SOME, 0)
        self.terminated = ("field", self.call, "terminated")
        self.hdr = ("field", self.call, "header")
        self.hdrv = ("payload", self.hdr, SOME, 0)
        self.errp = ("payload", r, ERR, 0)
        self.ok = True

    def dec(self, x, t, variant):
        return self.ps.decided(St(x.conds), t, variant)

    def boolc(self, x, t):
        for c in x.conds:
            if c[0] == "true" and c[1] == t:
                return c[2]
        return None

    def classify(self, x):
        """-> dict describing which case of the loop body this path is."""
        d = {"has_parse": any(e[0] == "call" and e[1] == PARSE for e in x.effects)}
        if not d["has_parse"]:
            return d
        is_err = self.dec(x, self.r, ERR)
        d["parse_err"] = is_err
        if is_err:
            d["incomplete"] = self.dec(x, self.errp, INCOMPLETE)
        if is_err is False:
            d["call_some"] = self.dec(x, self.callopt, SOME)
            if d["call_some"]:
                d["terminated"] = self.boolc(x, self.terminated)
                d["header_some"] = self.dec(x, self.hdr, SOME)
                ex = [e for e in x.effects if e[0] == "call" and e[1] == EXECUTE]
                d["execute_calls"] = ex
                if ex:
                    et = ("call",) + ex[0][1:]
                    d["execute_term"] = et
                    d["exec_err"] = self.dec(x, et, ERR)
        d["handle_calls"] = [e for e in x.effects if e[0] == "call" and e[1] == HANDLE]
        return d

    def describe(self, d):
        if not d.get("has_parse"):
            return "no-parse"
        if d.get("parse_err"):
            return "parse-error:" + ("incomplete" if d.get("incomplete") else "other" if d.get("incomplete") is False else "any")
        if d.get("parse_err") is None:
            return "parse:undetermined"
        if d.get("call_some") is False:
            return "ok:no-call"
        if d.get("call_some") is None:
            return "ok:call-undetermined"
        s = "ok:call"
        s += ":terminated" if d.get("terminated") else ":unterminated" if d.get("terminated") is False else ":term?"
        if d.get("terminated") is False:
            s += ":header-some" if d.get("header_some") else ":header-none" if d.get("header_some") is False else ":header?"
        s += ":exec-err" if d.get("exec_err") else ":exec-ok" if d.get("exec_err") is False else ""
        return s
