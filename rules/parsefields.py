"""parsefields: the fields of the CommandCall that `parse` returns say what was consumed.

On every accepting path of microscpi::parser::parse that returns Some(CommandCall { .. }), read off the remainder chain
(the sequence of successful consumers between the input and the returned remainder):
  query       is true exactly when the `?` tag was consumed behind the header,
  terminated  is true exactly when the consumer of the unit's end took a newline, false when it took `;`,
  node/header are the two components of the value of the command_program_header application of this path,
  args        is the vector handed to `arguments` (or a vector nothing was pushed to when no arguments were parsed).
A field written as a literal is compared with what the chain says; a field computed from the consumer's value
(`mark.is_some()`, `end == b'\\n'`) is evaluated for every byte the consumer's class admits."""
import pathsum
from pathsum import OK, SOME, St, show_term, strip_sites

P = "microscpi::parser::"
CALL = P + "CommandCall"


def ev(t, env):
    """tiny evaluator: literals, ==/!=, !, casts; env maps (site-stripped) terms to ints; None = unknown"""
    t = strip_sites(t)
    if t in env:
        return env[t]
    if t[0] == "lit":
        return t[2]
    if t[0] == "cast":
        return ev(t[1], env)
    if t[0] == "un" and t[1] == "Not":
        v = ev(t[2], env)
        return None if v is None else (not v)
    if t[0] == "bin" and t[1] in ("Eq", "Ne", "Lt", "Le", "Gt", "Ge", "And", "Or"):
        a, b = ev(t[2], env), ev(t[3], env)
        if a is None or b is None:
            return None
        return {"Eq": a == b, "Ne": a != b, "Lt": a < b, "Le": a <= b, "Gt": a > b, "Ge": a >= b, "And": bool(a) and bool(b), "Or": bool(a) or bool(b)}[t[1]]
    return None


def is_some_of(t):
    t = strip_sites(t)
    if t[0] == "call" and t[1].split("::")[-1] == "is_some" and len(t[2]) == 1:
        return t[2][0], True
    if t[0] == "call" and t[1].split("::")[-1] == "is_none" and len(t[2]) == 1:
        return t[2][0], False
    return None, None


def header_layout(v):
    """The value a header parser returns with its remainder - the addressed node and the optional path - as a pair
    `(node, Option<path>)` or a two-field struct: -> (node term, path term, selector of node, selector of path), where a
    selector is ("tproj", i) or ("field", name); the path component is the one that is an Option constructor."""
    comps = []
    if v[0] == "tuple" and len(v[1]) == 2:
        comps = [(("tproj", i), t) for i, t in enumerate(v[1])]
    elif v[0] == "struct" and len(v[2]) == 2:
        comps = [(("field", n), t) for n, t in v[2]]
    if len(comps) != 2:
        return None
    opt = [i for i, (sel, t) in enumerate(comps) if t[0] == "ctor" and t[1] in (SOME, pathsum.NONE)]
    if len(opt) != 1:
        return None
    h = opt[0]
    n = 1 - h
    return comps[n][1], comps[h][1], comps[n][0], comps[h][0]


def select(sel, base):
    return ("tproj", base, sel[1]) if sel[0] == "tproj" else ("field", base, sel[1])


def header_selectors(sk):
    """selectors of (node, path) in the header parsers' value, read from the accepting paths of the compound header parser"""
    f = sk.fns.get(P + "compound_command_program_header")
    out = set()
    for x in (f["exits"] if f else []):
        r = sk.exit_result(x)
        if r and r[0][0] == "ok":
            lay = header_layout(strip_sites(sk.val_of(r[0][1])))
            if lay:
                out.add((lay[2], lay[3]))
    return next(iter(out)) if len(out) == 1 else None


def check(ck, lib, sk, rid, which):
    f = sk.fns.get(P + "parse")
    if not ck.anchor(rid, P + "parse", f):
        return
    ps = f["ps"]
    n = 0
    n_none = 0
    for i, x in enumerate(f["exits"]):
        r = sk.exit_result(x)
        if not (r and r[0][0] == "ok"):
            continue
        payload = r[0][1]
        val = strip_sites(sk.val_of(payload))
        if "empty" in which and val[0] == "ctor" and val[1] == pathsum.NONE:
            # "no call" means an empty program message: the only thing consumed besides white space is the newline
            n_none += 1
            ch0 = sk.chain(sk.rem_of(payload), f["inp"], x, ps)
            st0 = St(tuple(strip_sites(c) for c in x.conds))
            toks = []
            for c in (ch0 or []):
                if len(c) <= 2 or not c[1]:
                    continue
                pid = c[1]
                if pid[0] == "optional":
                    d = ps.decided(st0, ("tproj", ("payload", strip_sites(c[2]), OK, 0), 1), SOME)
                    if d is False:
                        continue
                    pid = pid[1] if d is True else ("maybe", pid[1])
                toks.append(pid if pid is not None else ("unknown parser",))
            rest = [t for t in toks if not (t[0] == "fn" and t[1] == P + "whitespace") and not (t[0] == "maybe" and t[1] == ("fn", P + "whitespace"))]
            ok = ch0 is not None and rest == [("tag", 10)]
            ck.judge(ok, rid, "parse:none#%d" % n_none, "no call is returned only for an empty message (white space, newline)",
                     "parse returns `no call` after consuming %s: the caller takes `no call` for a consumed message terminator and resets the header path"
                     % ([t for t in toks] if ch0 is not None else "an underived remainder"), data=pathsum.show_exit(x)[:1200])
            continue
        if not (val[0] == "ctor" and val[1] == SOME and val[2] and val[2][0][0] == "struct" and val[2][0][1] == CALL):
            continue
        n += 1
        fields = dict(val[2][0][2])
        ch = sk.chain(sk.rem_of(payload), f["inp"], x, ps)
        key = "parse:call#%d" % n
        if ch is None:
            ck.bad(rid, key + ":chain", "remainder of an accepting path of parse is not suffix-derived", data=pathsum.show_exit(x)[:800])
            continue
        st = St(tuple(strip_sites(c) for c in x.conds))
        steps = [c for c in ch if len(c) > 2]

        def value_of(c):
            return ("tproj", ("payload", strip_sites(c[2]), OK, 0), 1)

        # ---- query
        if "query" in which:
            exp = False
            sym = None
            for c in steps:
                pid = c[1]
                if pid == ("tag", 63):
                    exp = True
                elif pid == ("optional", ("tag", 63)):
                    d = ps.decided(st, value_of(c), SOME)
                    if d is None:
                        sym = value_of(c)
                    else:
                        exp = d
            q = fields.get("query")
            ok = False
            desc = show_term(q) if q else "missing"
            if q is not None:
                if q[0] == "lit" and sym is None:
                    ok = q[2] is exp
                else:
                    v, pos = is_some_of(q)
                    if v is not None and sym is not None and v == sym:
                        ok = pos is True
                    elif v is not None and sym is None:
                        d = ps.decided(st, v, SOME)
                        ok = d is not None and (d == pos) == exp
            ck.judge(ok, rid, key + ":query", "query = %s, `?` %s" % (desc, "consumed iff the optional mark is present" if sym is not None else "consumed" if exp else "not consumed"),
                     "the query flag of the returned call is `%s` on a path where `?` was %s" % (desc, "optionally consumed" if sym is not None else "consumed" if exp else "not consumed"),
                     data=pathsum.show_exit(x)[:1200])
        # ---- terminated
        if "terminated" in which:
            last = steps[-1] if steps else None
            t = fields.get("terminated")
            ok = False
            why = "no consumer on the path"
            if last is not None and t is not None:
                pid = last[1]
                cls = None
                if pid and pid[0] == "tag" and pid[1] in (10, 59):
                    cls = [pid[1]]
                elif pid and pid[0] == "satisfy" and pid[1] and set(pid[1]) <= {10, 59}:
                    cls = sorted(pid[1])
                if cls is None:
                    why = "the last consumer %s is not the newline / semicolon recogniser" % (pid,)
                else:
                    V = value_of(last)
                    ok = True
                    seen = 0
                    for b in cls:
                        env = {V: b}
                        # bytes excluded by a test of the value on this path do not count
                        feasible = True
                        for c in x.conds:
                            if c[0] == "true":
                                v = ev(c[1], env)
                                if v is not None and bool(v) != c[2]:
                                    feasible = False
                        if not feasible:
                            continue
                        seen += 1
                        got = ev(t, env)
                        if got is None or bool(got) != (b == 10):
                            ok = False
                            why = "terminated is `%s` when the unit ends with %s" % (show_term(t), "a newline" if b == 10 else "`;`")
                    if not seen:
                        ok = False
                        why = "no terminator byte is feasible on the path"
            ck.judge(ok, rid, key + ":terminated", "terminated = %s after %s" % (show_term(t) if t else None, last[1] if last else None),
                     "the terminated flag of the returned call does not say whether a newline ended the unit: %s" % why, data=pathsum.show_exit(x)[:1200])
        # ---- node / header
        hdr = [c for c in steps if c[1] and c[1][0] == "factory" and c[1][1] == P + "command_program_header"]
        if "node" in which or "header" in which:
            if len(hdr) != 1:
                ck.bad(rid, key + ":header-app", "%d applications of command_program_header on an accepting path" % len(hdr))
            else:
                hv = value_of(hdr[0])
                sels = header_selectors(sk)
                for name, idx in (("node", 0), ("header", 1)):
                    if name in which:
                        got = fields.get(name)
                        want = select(sels[idx], hv) if sels else None
                        ck.judge(want is not None and got == want, rid, key + ":" + name, "%s is the %s component of the header parser's value" % (name, "node" if idx == 0 else "path"),
                                 "field %s of the returned call is `%s`, not the %s component of what command_program_header returned" % (name, show_term(got) if got else None, "node" if idx == 0 else "path"))
        if "args" in which:
            a = fields.get("args")
            ar = [c for c in steps if c[1] and c[1][0] == "factory" and c[1][1] == P + "arguments"]
            ok = a is not None and a[0] == "call" and a[1].endswith("Vec::new")
            if ar:
                t = strip_sites(ar[0][2])
                # arguments(&mut v)(input): the factory's argument is the returned vector
                ok = ok and t[0] == "apply" and t[1][0] == "call" and t[1][2] and t[1][2][0] == a
            else:
                # no push on this path
                ok = ok and not [e for e in x.effects if e[0] == "call" and e[1].endswith("::push")]
            ck.judge(ok, rid, key + ":args", "args is the vector filled by arguments()", "field args of the returned call is `%s`, not the vector the argument parser filled" % (show_term(a) if a else None))
    ck.floor(rid, "accepting paths of parse that return a call", n, 2)
    if "empty" in which:
        ck.floor(rid, "accepting paths of parse that return no call", n_none, 1)
