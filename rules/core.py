"""Check plumbing: rule-instance recording, floors, known findings, evidence, replay files."""
import json
import os
import sys
import time

VERIF = os.path.dirname(os.path.dirname(os.path.abspath(__file__)))
EVID = os.environ.get("VERIF_EVIDENCE_DIR") or os.path.join(VERIF, "evidence")
KNOWN = os.path.join(VERIF, "known_findings.json")


def load_known():
    if not os.path.exists(KNOWN):
        return {"findings": [], "fixed": []}
    with open(KNOWN) as f:
        return json.load(f)


class Check:
    def __init__(self, pid, tier, level, rule_text, seed=0):
        self.pid = pid
        self.tier = tier
        self.level = level
        self.rule_text = rule_text
        self.seed = seed
        self.t0 = time.time()
        self.instances = []      # dicts: rule, key, ok, detail, loc, trivial
        self.violations = []     # dicts: rule, key, detail, loc
        self.analysed = {"functions": set(), "configs": [], "call_sites": 0, "paths": 0}
        self.assumptions = []
        self.trusted = []
        self.floors = []
        self.extra = {}
        self.explanation = ""
        self.prefix = ""          # set while the library rules are re-run on another build configuration
        self.rename = None        # (from, to): while the rules of another property are evaluated under this one
        self.cfg_rerun = False

    # -- recording
    def _rn(self, rule):
        if self.rename and rule.startswith(self.rename[0]):
            return self.rename[1] + rule[len(self.rename[0]):]
        return rule

    def under(self, frm, to):
        """with ck.under("C03-", "C06-C"): rule ids C03-x recorded as C06-Cx (rules of a neighbouring property that are
        necessary conditions of this one as well)"""
        ck = self

        class _U:
            def __enter__(self_):
                self_.old = ck.rename
                ck.rename = (frm, to)

            def __exit__(self_, *a):
                ck.rename = self_.old
        return _U()

    def ok(self, rule, key, detail="", loc=None, trivial=False):
        key = self.prefix + key
        rule = self._rn(rule)
        self.instances.append({"rule": rule, "key": key, "ok": True, "detail": detail, "loc": loc, "trivial": trivial})

    def bad(self, rule, key, detail, loc=None, data=None):
        key = self.prefix + key
        rule = self._rn(rule)
        self.instances.append({"rule": rule, "key": key, "ok": False, "detail": detail, "loc": loc, "trivial": False})
        self.violations.append({"rule": rule, "key": key, "detail": detail, "loc": loc, "data": data})

    def skip(self, rule, key, detail, loc=None):
        """A supplementary rule whose anchor has a shape it does not recognise: recorded as not evaluated (no verdict).
        Only used where another rule of the same property (translation validation / compile-fail witnesses) decides the
        clause on its own; primary rules fail closed instead."""
        key = self.prefix + key
        rule = self._rn(rule)
        self.instances.append({"rule": rule, "key": key, "ok": True, "detail": "NOT EVALUATED: " + detail, "loc": loc, "trivial": True})
        self.extra.setdefault("not_evaluated", []).append({"rule": rule, "site": key, "why": detail})

    def judge(self, cond, rule, key, detail_ok="", detail_bad="", loc=None, data=None):
        if cond:
            self.ok(rule, key, detail_ok, loc)
        else:
            self.bad(rule, key, detail_bad or detail_ok, loc, data)
        return cond

    def floor(self, rule, what, count, minimum):
        """Fail closed when a rule matched fewer sites than were confirmed by hand."""
        self.floors.append({"rule": self._rn(rule), "what": what, "count": count, "floor": minimum})
        if count < minimum:
            self.bad(rule, "floor:" + what, "found %d instances of %s, floor is %d (anchor missing or matcher blind)" % (count, what, minimum))
        return count >= minimum

    def anchor(self, rule, name, obj):
        if obj is None:
            self.bad(rule, "anchor:" + name, "anchor %s not found in the current tree (fail closed)" % name)
            return False
        return True

    def fn(self, name):
        self.analysed["functions"].add(name)

    def assume(self, *a):
        for x in a:
            if x not in self.assumptions:
                self.assumptions.append(x)

    def trust(self, *a):
        for x in a:
            if x not in self.trusted:
                self.trusted.append(x)

    # -- finishing
    def finish(self):
        known = load_known()
        kf = {(k["property"], k["rule"], k["site_key"]): k for k in known.get("findings", [])}
        real = []
        lines = []
        for v in self.violations:
            k = (self.pid, v["rule"], v["key"])
            # the thorough tier re-evaluates the same source under the other feature configurations and prefixes the site
            # key with the configuration: it is the same construct (file, function, path) and the same finding
            for cfg_ in ("std:", "dfm:"):
                if v["key"].startswith(cfg_) and (self.pid, v["rule"], v["key"][len(cfg_):]) in kf:
                    k = (self.pid, v["rule"], v["key"][len(cfg_):])
            if k in kf:
                lines.append("KNOWN-FINDING: property=%s rule=%s site=%s %s" % (self.pid, v["rule"], v["key"], kf[k].get("what", "")))
            else:
                real.append(v)
        os.makedirs(os.path.join(EVID, "replay"), exist_ok=True)
        # stale replay files of this property
        for fn in os.listdir(os.path.join(EVID, "replay")):
            if fn.startswith(self.pid + "-"):
                os.remove(os.path.join(EVID, "replay", fn))
        for i, v in enumerate(real):
            p = os.path.join(EVID, "replay", "%s-%d.json" % (self.pid, i))
            with open(p, "w") as f:
                json.dump({"property": self.pid, "rule": v["rule"], "site_key": v["key"], "loc": v["loc"],
                           "detail": v["detail"], "data": v.get("data"), "tier": self.tier}, f, indent=1, default=str)
            lines.append("VIOLATION property=%s replay=%s" % (self.pid, p))
            lines.append("  rule %s at %s [%s]: %s" % (v["rule"], v["loc"] or "-", v["key"], v["detail"]))
        n_inst = len(self.instances)
        nontrivial = len({(i["rule"], i["key"]) for i in self.instances if not i["trivial"]})
        samples = []
        seen_rules = set()
        for i in self.instances:
            if i["rule"] not in seen_rules or not i["ok"]:
                seen_rules.add(i["rule"])
                samples.append({"rule": i["rule"], "site": i["key"], "loc": i["loc"], "verdict": "holds" if i["ok"] else "VIOLATED", "detail": i["detail"][:400]})
        cov = {
            "evaluations": n_inst,
            "distinct_nontrivial": nontrivial,
            "rule": self.rule_text,
            "samples": samples[:60],
            "explanation": self.explanation or self.rule_text,
            "rule_instances_by_rule": _count_by(self.instances),
            "functions_analysed": sorted(self.analysed["functions"]),
            "configs": self.analysed["configs"],
            "floors": self.floors,
            "known_findings_matched": [l for l in lines if l.startswith("KNOWN-FINDING")],
        }
        if self.level == "proof":
            cov["obligations"] = n_inst
            cov["discharged"] = sum(1 for i in self.instances if i["ok"])
            cov["checker_cmd"] = "./check %s %s" % (self.pid, self.tier)
            cov["trusted_base"] = self.trusted
        cov.update(self.extra)
        ev = {
            "property_id": self.pid,
            "tier": self.tier,
            "seed": self.seed,
            "level": self.level,
            "coverage": cov,
            "assumptions": self.assumptions + ["trusted: " + t for t in self.trusted],
            "wall_s": round(time.time() - self.t0, 2),
            "violations": len(real),
        }
        os.makedirs(EVID, exist_ok=True)
        with open(os.path.join(EVID, self.pid + ".json"), "w") as f:
            json.dump(ev, f, indent=1, default=str)
        shown = 0
        for l in lines:
            if l.startswith("VIOLATION") or l.startswith("  rule"):
                shown += 1
                if shown > 24:
                    continue
            print(l)
        if shown > 24:
            print("  ... %d more violations (all replay files are written)" % (len(real) - 12))
        print("%s %s: %d rule instances (%d distinct non-trivial), %d violations, %d known findings, %.1fs"
              % (self.pid, self.tier, n_inst, nontrivial, len(real), len(lines) - 2 * len(real), time.time() - self.t0))
        return 1 if real else 0


def _count_by(insts):
    d = {}
    for i in insts:
        d[i["rule"]] = d.get(i["rule"], 0) + 1
    return d
