"""Shared access to fact sets for the property rules."""
import facts
import hir
import pathsum

LIB = "microscpi"
P = "microscpi::"


class FactSet:
    def __init__(self, ck, cfg, custom=None):
        r = facts.get(cfg, custom)
        self.rc = r["rc"]
        self.log = r["log"]
        self.raw = r["facts"]
        self.wall = r["wall"]
        ck.analysed["configs"].append({"cfg": cfg, "cargo_rc": r["rc"], "crates": sorted(r["facts"]), "extract_wall_s": r["wall"]})
        self.crates = {k: hir.Crate(v) for k, v in r["facts"].items()}

    def crate(self, stem):
        return self.crates.get(stem)


_cache = {}


def factset(ck, cfg, custom=None):
    key = cfg
    if key not in _cache:
        _cache[key] = FactSet(ck, cfg, custom)
    else:
        fs = _cache[key]
        ck.analysed["configs"].append({"cfg": cfg, "cargo_rc": fs.rc, "crates": sorted(fs.raw), "extract_wall_s": 0})
    return _cache[key]


DEFAULT_CFG = "lib"


def lib(ck, cfg="lib"):
    """The microscpi library crate facts of a configuration; fails closed if the build failed."""
    if cfg == "lib":
        cfg = DEFAULT_CFG
    fs = factset(ck, cfg)
    if fs.rc != 0 or fs.crate("microscpi.rlib") is None:
        ck.bad("build", "build:" + cfg, "cargo check of configuration %s failed or produced no facts:\n%s" % (cfg, fs.log[-1500:]))
        return None
    return fs.crate("microscpi.rlib")


def macros(ck):
    fs = factset(ck, "lib")
    c = fs.crate("microscpi_macros.procmacro")
    if c is None:
        ck.bad("build", "build:macros", "no facts for microscpi_macros")
    return c


def enums_of(crate):
    return {e["path"]: [v["name"] for v in e["variants"]] for e in crate.facts["enums"]}


def summarize(crate, path, ck=None, closure=False):
    """Path summaries of a function (for `async fn` of its coroutine body).
    closure=True: the function returns a closure; summarise that closure's body."""
    b = crate.body(path)
    if b is None:
        return None, None
    ps = pathsum.PathSum(enums_of(crate), inline_helpers(crate), const_bodies(crate))
    ps._inl_stack.append(hir.base_path(path))
    v = hir.async_full(b["value"])
    params = b["params"]
    if closure:
        c = returned_closure(v)
        if c is None:
            return None, None
        # bind the outer params first, then the closure params
        st_params = params + c["params"]
        exits = ps.summarize(c["body"], st_params)
    else:
        exits = ps.summarize(v, params)
    if ck is not None:
        ck.fn(path)
        ck.analysed["paths"] += len(exits)
    return exits, ps


_inl = {}
SKELETON_VOCABULARY = ("take_while", "satisfy", "optional", "tag")


def inline_helpers(crate):
    """Private local helper functions that pathsum evaluates in place at their call sites (so that extracting a step into a
    helper does not hide it from the rules): non-public free functions and inherent methods of the library, except
    * trait impl methods and trait default methods (dispatch points of the design: run, process, execute, write_response ...),
    * parsers with the plain shape `fn(&[u8]) -> ParseResult` and parser factories (`-> impl Fn`): they are the nodes of the
      parser skeleton; a *parametrised* private parser (extra parameters before the input) is evaluated in place.
    For an `async fn` the coroutine body is evaluated at the call and `.await` passes its value through."""
    key = id(crate)
    if key in _inl:
        return _inl[key]
    out = {}
    for b in crate.facts["bodies"]:
        d = b["def"]
        if b["kind"] not in ("Fn", "AssocFn") or "::{" in d or b.get("trait") or b.get("trait_default"):
            continue
        if not d.startswith(crate.name + "::") and not d.startswith("<" + crate.name + "::"):
            continue
        if "Public" in (b.get("vis") or "Public"):
            continue
        ret = b.get("ret", "")
        ptys = [p.get("ty", "") for p in b["params"]]
        if ret.startswith("impl ") and not b.get("is_async"):
            # parser factories: the combinator vocabulary of the skeleton and the factories parametrised by tree nodes or
            # by the argument vector stay nodes of the skeleton; a private factory parametrised by plain data (a quote
            # byte, a radix letter ...) is evaluated in place, so that its instances are told apart by their arguments
            if d.split("::")[-1] in SKELETON_VOCABULARY or not ptys or any("Node" in t or "Vec<" in t for t in ptys):
                continue
        if ret.startswith("core::result::Result<(&") and len(b["params"]) <= 1:
            continue
        out[hir.base_path(d)] = {"params": b["params"], "value": hir.async_full(b["value"]), "def": d}
    _inl[key] = out
    return out


def const_bodies(crate):
    return {b["def"]: b["value"] for b in crate.facts["bodies"] if b["kind"].startswith("Const") or b["kind"].startswith("AssocConst")}


def returned_closure(v):
    x = v
    while x.get("k") == "Block" and not x["stmts"] and x.get("expr"):
        x = x["expr"]
    return x if x.get("k") == "Closure" else None


def parent_map(root):
    pm = {}
    for x in hir.walk(root):
        for c in hir.children(x):
            pm[id(c)] = x
    return pm
