"""Shared access to fact sets for the property rules."""
import facts
import hir
import pathsum

LIB = "microscpi"
P = "microscpi::"


class FactSet:
    def __init__(self, ck, cfg, custom=None):
        r = facts.get(cfg, custom)
        self.rc = r["rc"]
        self.log = r["log"]
        self.raw = r["facts"]
        self.wall = r["wall"]
        ck.analysed["configs"].append({"cfg": cfg, "cargo_rc": r["rc"], "crates": sorted(r["facts"]), "extract_wall_s": r["wall"]})
        self.crates = {}
        for k, v in r["facts"].items():
            if k.split(".")[0] == "microscpi" and custom is None:
                # private functions are addressed by role: located by structure, carried under their canonical path
                import roles
                v, found = roles.canonicalise(v)
                moved = {role: actual for role, actual in found.items() if role.startswith("(public)") or actual != roles.P + role}
                if moved:
                    ck.extra.setdefault("roles_located_under_another_name", {}).update(moved)
            elif k.split(".")[0] != "microscpi_macros":
                # witness / target crates mention the library's public items: same relocation
                import json
                import re
                import roles
                text = json.dumps(v)
                mv = roles.relocated(text)
                if mv:
                    for a in sorted(mv, key=len, reverse=True):
                        text = re.sub(re.escape(a) + r"(?![A-Za-z0-9_])", mv[a], text)
                # generated items wrapped in an anonymous constant (`const _: () = { statics; impl Interface for T {..} };`, so
                # that several interfaces fit into one module): the same items, addressed as if they were not wrapped
                text2 = roles.unwrap_anonymous_consts(text)
                if mv or text2 != text:
                    v = json.loads(text2)
            self.crates[k] = hir.Crate(v)

    def crate(self, stem):
        return self.crates.get(stem)


_cache = {}


def factset(ck, cfg, custom=None):
    key = cfg
    if key not in _cache:
        _cache[key] = FactSet(ck, cfg, custom)
    else:
        fs = _cache[key]
        ck.analysed["configs"].append({"cfg": cfg, "cargo_rc": fs.rc, "crates": sorted(fs.raw), "extract_wall_s": 0})
    return _cache[key]


DEFAULT_CFG = "lib"


def lib(ck, cfg="lib"):
    """The microscpi library crate facts of a configuration; fails closed if the build failed."""
    if cfg == "lib":
        cfg = DEFAULT_CFG
    fs = factset(ck, cfg)
    if fs.rc != 0 or fs.crate("microscpi.rlib") is None:
        ck.bad("build", "build:" + cfg, "cargo check of configuration %s failed or produced no facts:\n%s" % (cfg, fs.log[-1500:]))
        return None
    return fs.crate("microscpi.rlib")


def macros(ck):
    fs = factset(ck, "lib")
    c = fs.crate("microscpi_macros.procmacro")
    if c is None:
        ck.bad("build", "build:macros", "no facts for microscpi_macros")
    return c


def enums_of(crate):
    return {e["path"]: [v["name"] for v in e["variants"]] for e in crate.facts["enums"]}


def summarize(crate, path, ck=None, closure=False):
    """Path summaries of a function (for `async fn` of its coroutine body).
    closure=True: the function returns a closure; summarise that closure's body."""
    b = crate.body(path)
    if b is None:
        return None, None
    ps = pathsum.PathSum(enums_of(crate), inline_helpers(crate), const_bodies(crate))
    ps._inl_stack.append(hir.base_path(path))
    if crate.body("microscpi::parser::take_while") is not None:
        ps.take_while_fn = "microscpi::parser::take_while"
    if crate.body("microscpi::parser::tag") is not None and hir.base_path(path).startswith("microscpi::parser::"):
        ps.tag_fn = "microscpi::parser::tag"
    ps.curried = curried_roles(crate)
    v = hir.async_full(b["value"])
    params = b["params"]
    if closure:
        c = returned_closure(v)
        if c is None:
            if hir.base_path(path) not in curried_roles(crate):
                return None, None
            # the uncurried form `f(ctx.., input)` of a parser factory: context parameters and input are all parameters
            exits = ps.summarize(v, params)
        else:
            # bind the outer params first, then the closure params
            st_params = params + c["params"]
            exits = ps.summarize(c["body"], st_params)
    else:
        exits = ps.summarize(v, params)
    if ck is not None:
        ck.fn(path)
        ck.analysed["paths"] += len(exits)
    return exits, ps


_inl = {}
SKELETON_VOCABULARY = ("take_while", "satisfy", "optional", "tag")


_qt = {}


def queue_types(crate):
    """Self types of the library's impls of its ErrorQueue trait."""
    key = id(crate)
    if key not in _qt:
        _qt[key] = {b.get("self_ty") for b in crate.facts["bodies"] if (b.get("trait") or "").endswith("::error_queue::ErrorQueue") and b.get("self_ty")}
    return _qt[key]


def inline_helpers(crate):
    """Private local helper functions that pathsum evaluates in place at their call sites (so that extracting a step into a
    helper does not hide it from the rules): non-public free functions and inherent methods of the library, except
    * trait impl methods and trait default methods (dispatch points of the design: run, process, execute, write_response ...),
    * parsers with the plain shape `fn(&[u8]) -> ParseResult` and parser factories (`-> impl Fn`): they are the nodes of the
      parser skeleton; a *parametrised* private parser (extra parameters before the input) is evaluated in place.
    For an `async fn` the coroutine body is evaluated at the call and `.await` passes its value through."""
    key = id(crate)
    if key in _inl:
        return _inl[key]
    out = {}
    parse_parts = _parts_of_parse(crate)
    for b in crate.facts["bodies"]:
        d = b["def"]
        if b["kind"] in ("Fn", "AssocFn") and "::{" not in d and hir.base_path(d).startswith(crate.name + "::interface::Adapter::"):
            # a provided method of the transport trait (`send` = write + flush): what the library does with a transport
            # when the user's adapter does not override it - evaluated in place like a private helper
            out[hir.base_path(d)] = {"params": b["params"], "value": hir.async_full(b["value"]), "def": d, "generics": b.get("generics") or []}
            continue
        if b["kind"] not in ("Fn", "AssocFn") or "::{" in d or b.get("trait_default"):
            continue
        private_trait_impl = bool(b.get("trait")) and b["trait"].startswith(crate.name + "::") and "Public" not in (b.get("vis") or "Public")
        if b.get("trait") and not private_trait_impl:
            continue
        if not private_trait_impl and not d.startswith(crate.name + "::") and not d.startswith("<" + crate.name + "::"):
            continue
        ptys = [p.get("ty", "") for p in b["params"]]
        if "Public" in (b.get("vis") or "Public"):
            # public API is addressed by name - except the read-only accessors of the error queue's own type (`is_full(&self)`,
            # `capacity(&self)` ...): where the queue's trait methods call one, it is evaluated in place like a private helper
            sty = b.get("self_ty") or ""
            if not (not b.get("trait") and queue_types(crate) and sty in queue_types(crate) and len(ptys) == 1 and ptys[0] == "&" + sty):
                continue
        if d in curried_roles(crate):
            continue
        ret = b.get("ret", "")
        if ret.startswith("impl ") and not b.get("is_async"):
            # parser factories: the combinator vocabulary of the skeleton and the factories parametrised by tree nodes or
            # by the argument vector stay nodes of the skeleton; a private factory parametrised by plain data (a quote
            # byte, a radix letter ...) is evaluated in place, so that its instances are told apart by their arguments
            if d.split("::")[-1] in SKELETON_VOCABULARY or not ptys or any("Node" in t or "Vec<" in t for t in ptys):
                continue
        if ret.startswith("core::result::Result<(&") and len(b["params"]) <= 1 and d not in parse_parts \
                and (not ptys or "[u8]" in ptys[0]) and "[u8]" in ret.split(",")[0]:
            # (a private helper that merely returns a pair behind a Result - `fn integer_literal(&self) -> Result<(&str, u32), _>` -
            # is not a parser: it takes no byte slice and hands no remainder back)
            continue
        out[hir.base_path(d)] = {"params": b["params"], "value": hir.async_full(b["value"]), "def": d, "generics": b.get("generics") or []}
    _inl[key] = out
    return out


FACTORY_ROLES = ("command_program_header", "compound_command_program_header", "common_command_program_header", "arguments")
_cur = {}


def curried_roles(crate):
    """The parser factories of the grammar (header parsers, arguments) that the tree writes in uncurried form,
    `f(ctx.., input) -> ParseResult` instead of `f(ctx..) -> impl Fn(input) -> ParseResult`. pathsum presents a call
    `f(a, b, input)` of such a function as the application `f(a, b)(input)`, so that both forms look alike to the rules."""
    key = id(crate)
    if key not in _cur:
        import roles
        out = set()
        for r in FACTORY_ROLES:
            b = crate.body(roles.P + r)
            if b is not None and len(b["params"]) >= 2 and (b.get("ret") or "").startswith("core::result::Result<(&") and returned_closure(hir.async_full(b["value"])) is None:
                out.add(roles.P + r)
        _cur[key] = out
    return _cur[key]


def parser_input(crate, path):
    """name of the input parameter of a parser factory (the returned closure's parameter, or the last parameter of the
    uncurried form)"""
    b = crate.body(path)
    if b is None:
        return None
    cl = returned_closure(hir.async_full(b["value"]))
    p = cl["params"][0] if cl is not None else b["params"][-1]
    return p.get("name")


def _parts_of_parse(crate):
    """Private parser-shaped functions that exist only as pieces of `parse` (every function that mentions them is
    `parse` or another such piece): `parse` split into steps. They are evaluated in place, so that the rules see `parse`
    as one function however it is cut up. The named parts of the grammar (roles) and anything used from elsewhere stay
    nodes of the skeleton."""
    import roles
    PARSE = roles.P + "parse"
    if crate.body(PARSE) is None:
        return set()
    role_paths = {roles.P + r for r in ("parse", "satisfy", "tag", "take_while", "optional", "whitespace", "is_whitespace", "program_mnemonic", "header_separator",
                                        "argument_separator", "argument", "arguments", "command_program_header", "compound_command_program_header", "common_command_program_header")}
    fns = {}
    for b in crate.facts["bodies"]:
        d = b["def"]
        if b["kind"] == "Fn" and "::{" not in d and d.startswith(crate.name + "::"):
            fns[d] = roles._refs(b["value"])
    cand = {d for d in fns if d not in role_paths and (crate.body(d).get("ret") or "").startswith("core::result::Result<(&") and "Public" not in (crate.body(d).get("vis") or "Public")}
    changed = True
    while changed:
        changed = False
        for d in list(cand):
            callers = {c for c, refs in fns.items() if d in refs and c != d}
            if not callers or not all(c == PARSE or c in cand for c in callers):
                cand.discard(d)
                changed = True
    return cand


def walk_inlined(crate, value, _seen=None):
    """hir.walk over a body, continuing into the bodies of the private helpers it calls (the ones pathsum evaluates in
    place); the call node of a helper is not yielded, its body's nodes are."""
    helpers = inline_helpers(crate)
    seen = _seen if _seen is not None else set()
    for x in hir.walk(value):
        c = hir.base_path(hir.callee(x) or "") if x.get("k") in ("Call", "MethodCall") else ""
        if c in helpers:
            if c not in seen:
                seen.add(c)
                yield from walk_inlined(crate, helpers[c]["value"], seen)
            continue
        yield x


def subst_term(t, old, new):
    if t == old:
        return new
    if isinstance(t, tuple):
        return tuple(subst_term(x, old, new) for x in t)
    return t


def ctor_type(t):
    """enum type path of a constructor term (`a::b::Enum::Variant` -> `a::b::Enum`)"""
    return t[1].rsplit("::", 1)[0] if t and t[0] == "ctor" and "::" in t[1] else None


def conv_values(crate, inner, fty, tty, depth=0):
    """Possible values of `<tty as From<fty>>::from(inner)` read from the local From impl (its path summaries with the
    parameter replaced by `inner`; paths excluded by the constructor of `inner` are dropped; conversions inside the impl
    (`Error::X.into()`) are evaluated the same way). None when there is no such local impl or it is not a plain case split."""
    if fty == tty:
        return [inner]
    d = "<%s as core::convert::From<%s>>::from" % (tty, fty)
    b = crate.body(d)
    if b is None or depth > 3:
        return None
    try:
        ex, ps = summarize(crate, d)
    except pathsum.Unsupported:
        return None
    if not ex:
        return None
    pname = b["params"][0].get("name") if b["params"] else None
    p = ("param", pname) if pname else None
    out = []
    for x in ex:
        if x.kind != "return" or x.value is None:
            return None
        feasible = True
        for c in x.conds:
            if c[0] == "is" and p is not None and c[1] == p and inner[0] == "ctor" and c[2].rsplit("::", 1)[0] == ctor_type(inner):
                if (inner[1] == c[2]) != c[3]:
                    feasible = False
        if not feasible:
            continue
        v = pathsum.strip_sites(x.value)
        if p is not None:
            v = subst_term(v, p, pathsum.strip_sites(inner))
        vs = canon_conv(crate, v, tty, depth + 1)
        if vs is None:
            return None
        out += vs
    return out


def canon_conv(crate, t, tty=None, depth=0):
    """Evaluate the error conversion at the top of term `t` (a `?`-conversion ("from", inner, fty, tty) or an `into()` /
    `From::from` call on a constructor whose target type `tty` is known from the context) -> list of possible terms;
    a term that is no conversion is returned as is; None when a conversion cannot be evaluated."""
    t = pathsum.strip_sites(t)
    if t[0] == "from":
        return conv_values(crate, t[1], t[2], t[3], depth)
    if t[0] == "call" and t[1].split("::")[-1] in ("into", "from") and len(t[2]) == 1 and ("Into" in t[1] or "From" in t[1]):
        fty = ctor_type(t[2][0])
        if fty is None or tty is None:
            return None
        return conv_values(crate, t[2][0], fty, tty, depth)
    return [t]


def const_bodies(crate):
    return {b["def"]: b["value"] for b in crate.facts["bodies"] if b["kind"].startswith("Const") or b["kind"].startswith("AssocConst")}


def returned_closure(v):
    """The closure a factory returns: the tail expression of its body, possibly behind leading statements
    (`let a = ..; let b = ..; move |input| ..`). The returned node is the closure; when statements precede it, its `body`
    is wrapped so that they are evaluated first (they bind what the closure captures)."""
    x = v
    pre = []
    while x.get("k") == "Block" and x.get("expr"):
        pre += x["stmts"]
        x = x["expr"]
        while x.get("k") in ("DropTemps", "Use"):
            x = x["e"]
    if x.get("k") != "Closure":
        return None
    if not pre:
        return x
    c = dict(x)
    c["body"] = {"k": "Block", "stmts": pre, "expr": x["body"], "sp": x.get("sp"), "ty": x["body"].get("ty")}
    return c


def parent_map(root):
    pm = {}
    for x in hir.walk(root):
        for c in hir.children(x):
            pm[id(c)] = x
    return pm
