"""pathsum: structured path summaries over the re-sugared HIR of one function.

An abstract interpreter that enumerates the paths through if / if-let / match / ? / loop /
while / for from the function entry to every exit, keeping for each path
  * conds   - the path condition: atoms over symbolic terms (variant tests, booleans)
  * effects - the ordered list of resolved calls (with symbolic arguments), awaits, stores
  * env     - the symbolic value of every local at the exit
  * the exit kind and value.
Loops are not unrolled: locals assigned in a loop are replaced by fresh `loopvar` symbols at
the loop head, the body is enumerated once from the head, and paths reaching the back-edge
are reported as `backedge` exits.  Every concrete execution is a concatenation of
  entry -> head,  (head -> back-edge)*,  head -> exit
segments, so a rule that holds for every segment is an inductive statement.

Result/Option combinators (map, map_err, or_else, and_then, unwrap_or, unwrap_or_else, or,
ok_or, ok, unwrap, expect, is_*) are interpreted by case split and inlining of literal closures.

Terms are nested tuples:
  ('param', name) ('local', id, name) ('loopvar', id, name, loop_site)
  ('lit', type, value) ('unit',) ('fn', path) ('static', path) ('const', path)
  ('ctor', variant_path, args) ('struct', path, ((field, term), ...))
  ('tuple', items) ('array', items) ('repeat', term)
  ('call', callee, args, site) ('apply', fterm, args, site)
  ('payload', term, variant_path, i) ('tproj', term, i) ('field', term, name)
  ('index', base, idx) ('bin', op, l, r) ('not', t) ('neg', t) ('cast', t, ty)
  ('from', term, from_ty, to_ty)  ('closure', key)  ('iter_item', term, site)
"""
from hir import base_path, loc

RESULT = "core::result::Result"
OPTION = "core::option::Option"
OK, ERR = RESULT + "::Ok", RESULT + "::Err"
SOME, NONE = OPTION + "::Some", OPTION + "::None"

UNIT = ("unit",)


def parent(path):
    return path.rsplit("::", 1)[0]


def split_generics(ty):
    """'a::B<X, Y<Z>>' -> ('a::B', ['X', 'Y<Z>'])"""
    i = ty.find("<")
    if i < 0 or not ty.endswith(">"):
        return ty, []
    head = ty[:i]
    inner = ty[i + 1:-1]
    parts, depth, cur = [], 0, ""
    for c in inner:
        if c in "<([":
            depth += 1
        elif c in ">)]":
            depth -= 1
        if c == "," and depth == 0:
            parts.append(cur.strip())
            cur = ""
        else:
            cur += c
    if cur.strip():
        parts.append(cur.strip())
    return head, parts


class St:
    __slots__ = ("conds", "effects", "env")

    def __init__(self, conds=(), effects=(), env=None):
        self.conds = conds
        self.effects = effects
        self.env = env if env is not None else {}

    def fork(self):
        return St(self.conds, self.effects, dict(self.env))

    def with_cond(self, c):
        return St(self.conds + (c,), self.effects, dict(self.env))

    def add_effect(self, eff):
        self.effects = self.effects + (eff,)


def expand_struct_locals(env):
    """A local that holds a struct value field by field (`offsets = Offsets { read: .., processed: .. }`) is also visible
    as one pseudo-local per field, `<id>.<field>`: rules that follow a loop-carried offset do not care whether it is a
    local of its own or a field of a private struct."""
    extra = {}
    for lid, v in env.items():
        if isinstance(v, tuple) and v and v[0] == "struct" and isinstance(lid, str):
            for (fname, t) in v[2]:
                extra["%s.%s" % (lid, fname)] = t
    if not extra:
        return env
    e2 = dict(env)
    e2.update(extra)
    return e2


class Exit:
    """One enumerated path."""
    __slots__ = ("kind", "conds", "effects", "value", "env", "extra")

    def __init__(self, kind, st, value, extra=None):
        self.kind = kind            # return | err | panic | backedge | break_out | unsupported
        self.conds = st.conds
        self.effects = st.effects
        self.env = expand_struct_locals(st.env)
        self.value = value
        self.extra = extra

    def calls(self, pred=None):
        out = []
        for e in self.effects:
            if e[0] == "call" and (pred is None or pred(e)):
                out.append(e)
        return out

    def after_head(self, site=None):
        """Effects after the last loop-head marker (of the given loop)."""
        idx = -1
        for i, e in enumerate(self.effects):
            if e[0] == "loop_head" and (site is None or e[1] == site):
                idx = i
        return self.effects[idx + 1:]


class Unsupported(Exception):
    pass


class PathSum:
    MAX_PATHS = 20000

    def __init__(self, enums=None, inline=None, consts=None):
        self.consts = consts or {}     # const item def path -> body expression (evaluated on use when not an integer)
        # enum path -> list of variant names (from crate facts); Result/Option built in
        self.inline = inline or {}     # callee def path -> body facts: small local helpers evaluated in place
        self._inl_depth = 0
        self._inl_stack = []           # functions being evaluated in place (a recursive call stays an opaque call)
        self.enums = {RESULT: ["Ok", "Err"], OPTION: ["None", "Some"]}
        if enums:
            self.enums.update(enums)
        self.closures = {}
        self._closure_refs = {}
        self._alias = {}               # helper parameter id -> caller local id (by-value parameter fed from a plain local)
        self.curried = set()           # parser factories written in uncurried form (ctx.., input)
        self._tsub = {}                # type parameter -> type, while a generic helper is evaluated in place
        self.tag_fn = None             # def path of the library's tag combinator, when the analysed crate has one
        self.take_while_fn = None      # def path of the library's take_while combinator, when the analysed crate has one
        self.loops = {}
        self.npaths = 0
        self.notes = []

    # ------------------------------------------------------------------ entry points
    def summarize(self, body, params, param_terms=None):
        """body: expression node; params: list of pattern nodes. Returns list of Exit."""
        st = St()
        for i, p in enumerate(params):
            t = param_terms[i] if param_terms else self._param_term(p, i)
            ms, _ = self.match_pat(st, t, p)
            st = ms[0] if ms else st
        outs = self.ev(body, st)
        exits = []
        for o in outs:
            k = o[0]
            if k == "val":
                exits.append(Exit("return", o[1], o[2]))
            elif k == "ret":
                exits.append(Exit("return", o[1], o[2]))
            elif k == "err":
                exits.append(Exit("err", o[1], o[2], o[3]))
            elif k == "panic":
                exits.append(Exit("panic", o[1], o[2], o[3]))
            elif k == "backedge":
                exits.append(Exit("backedge", o[1], o[2], o[3]))
            else:
                exits.append(Exit("unsupported", o[1], o[2] if len(o) > 2 else None, k))
        return exits

    def _param_term(self, p, i):
        if p["k"] == "Bind":
            return ("param", p["name"])
        return ("param", "#%d" % i)

    # ------------------------------------------------------------------ variants
    def decided(self, st, t, variant):
        """True / False / None: does term t have the given variant on this path?"""
        if t[0] == "ctor":
            if parent(t[1]) == parent(variant):
                return t[1] == variant
        enum = parent(variant)
        neg = set()
        for c in st.conds:
            if c[0] == "is" and c[1] == t:
                if c[2] == variant:
                    return c[3]
                if parent(c[2]) == enum:
                    if c[3]:
                        return False
                    neg.add(c[2].rsplit("::", 1)[1])
        vs = self.enums.get(enum)
        if vs:
            rest = [v for v in vs if v not in neg]
            me = variant.rsplit("::", 1)[1]
            if rest == [me]:
                return True
            if me not in rest:
                return False
        return None

    def split(self, st, t, variant):
        """-> (st_yes or None, st_no or None).  Conditions on Result/Option are always recorded in terms of Ok / Some,
        whichever variant the source happens to test."""
        if variant == ERR:
            n, y = self.split(st, t, OK)
            return y, n
        if variant == NONE:
            n, y = self.split(st, t, SOME)
            return y, n
        d = self.decided(st, t, variant)
        if d is True:
            return st, None
        if d is False:
            return None, st
        return st.with_cond(("is", t, variant, True)), st.with_cond(("is", t, variant, False))

    def payload(self, t, variant, i):
        if t[0] == "ctor" and t[1] == variant:
            return t[2][i] if i < len(t[2]) else UNIT
        if variant == SOME and i == 0 and is_slice_get(t):
            # checked slicing: `s.get(range)` is Some(&s[range]) exactly when the range is within bounds
            return ("index", t[2][0], t[2][1], t[3] if len(t) > 3 else None)
        return ("payload", t, variant, i)

    def split_bool(self, st, t):
        if t[0] == "lit" and t[1] == "bool":
            return (st, None) if t[2] else (None, st)
        if t[0] == "not":
            a, b = self.split_bool(st, t[1])
            return b, a
        if t[0] == "call" and len(t[2]) == 1 and t[1] in (RESULT + "::is_ok", RESULT + "::is_err", OPTION + "::is_some", OPTION + "::is_none"):
            # a test of the variant, written as a method: the same condition as a pattern match
            y, n = self.split(st, t[2][0], OK if t[1].startswith(RESULT) else SOME)
            return (y, n) if t[1].endswith(("is_ok", "is_some")) else (n, y)
        if t[0] == "bin" and t[1] in ("Eq", "Ne"):
            for a_, b_ in ((t[2], t[3]), (t[3], t[2])):
                if b_[0] == "ctor" and not b_[2] and a_[0] != "ctor" and parent(b_[1]) in self.enums:
                    y, n = self.split(st, a_, b_[1])
                    return (y, n) if t[1] == "Eq" else (n, y)
        for c in st.conds:
            if c[0] == "true" and c[1] == t:
                return (st, None) if c[2] else (None, st)
        d = self._int_decide(st, t)
        if d is not None:
            return (st, None) if d else (None, st)
        return st.with_cond(("true", t, True)), st.with_cond(("true", t, False))

    def _int_decide(self, st, t):
        """A comparison of offsets / lengths that the path already decides: identical operands, or entailed (Fourier-
        Motzkin) by the comparisons on the path and `0 <= position < len(searched slice)`.  Only tried when a searched
        position or a slice length is involved; prunes infeasible paths such as `pos == s.len()` after a successful
        search."""
        if not (t[0] == "bin" and t[1] in ("Eq", "Ne", "Lt", "Le", "Gt", "Ge")):
            return None
        if t[2] == t[3]:          # the very same evaluation on both sides
            return t[1] in ("Eq", "Le", "Ge")
        a, b = strip_sites(t[2]), strip_sites(t[3])
        interesting = False
        for u in subterms((a, b)):
            if isinstance(u, tuple) and u and ((u[0] == "payload" and u[1][0] == "call" and u[1][1].endswith("::position")) or (u[0] == "call" and u[1].endswith("::len"))):
                interesting = True
        if not interesting:
            return None
        import fm
        from linform import Lin, lin
        facts = []
        seen = set()
        terms = [a, b] + [strip_sites(c[1]) for c in st.conds if c[0] == "true"]
        for tt in terms:
            for u in subterms(tt):
                if not (isinstance(u, tuple) and u) or u in seen:
                    continue
                seen.add(u)
                if u[0] == "payload" and u[2] == SOME and u[1][0] == "call" and u[1][1].endswith("::position") and u[1][2] and u[1][2][0][0] == "call" and u[1][2][0][1].endswith("::iter"):
                    src = u[1][2][0][2][0]
                    facts += [fm.ge0(lin(u)), fm.lt(lin(u), lin(("call", "core::slice::len", (src,))))]
                if u[0] == "call" and u[1].endswith("::len") and len(u[2]) == 1:
                    facts.append(fm.ge0(lin(u)))
        for c in st.conds:
            if c[0] == "true" and c[1][0] == "bin" and c[1][1] in ("Eq", "Ne", "Lt", "Le", "Gt", "Ge"):
                x, y = lin(strip_sites(c[1][2])), lin(strip_sites(c[1][3]))
                op, v = c[1][1], c[2]
                if op in ("Lt", "Ge"):
                    facts.append(fm.lt(x, y) if (op == "Lt") == v else fm.le(y, x))
                elif op in ("Gt", "Le"):
                    facts.append(fm.lt(y, x) if (op == "Gt") == v else fm.le(x, y))
                elif (op == "Eq") == v:
                    facts += fm.eq(x, y)
        la, lb = lin(a), lin(b)
        goals = {"Lt": [fm.lt(la, lb)], "Le": [fm.le(la, lb)], "Gt": [fm.lt(lb, la)], "Ge": [fm.le(lb, la)], "Eq": fm.eq(la, lb)}
        neg = {"Lt": [fm.le(lb, la)], "Le": [fm.lt(lb, la)], "Gt": [fm.le(la, lb)], "Ge": [fm.lt(la, lb)]}
        op = t[1]
        if op == "Ne":
            if fm.entails(facts, fm.lt(la, lb)) or fm.entails(facts, fm.lt(lb, la)):
                return True
            if all(fm.entails(facts, g) for g in goals["Eq"]):
                return False
            return None
        if all(fm.entails(facts, g) for g in goals[op]):
            return True
        if op == "Eq":
            if fm.entails(facts, fm.lt(la, lb)) or fm.entails(facts, fm.lt(lb, la)):
                return False
            return None
        if all(fm.entails(facts, g) for g in neg[op]):
            return False
        return None

    # ------------------------------------------------------------------ patterns
    def match_pat(self, st, t, p):
        """-> (list of matched states (bindings applied), list of unmatched states)"""
        k = p["k"]
        if k in ("Wild", "Missing"):
            return [st], []
        if k == "Bind":
            s2 = st.fork()
            s2.env[self._alias.get(p["id"], p["id"])] = t
            if "sub" in p:
                return self.match_pat(s2, t, p["sub"])
            return [s2], []
        if k in ("Ref", "Deref", "Box"):
            return self.match_pat(st, t, p["pat"])
        if k == "Tuple":
            return self._match_seq(st, [(self.tproj(t, i), sp) for i, sp in enumerate(p["pats"])])
        if k == "TupleStruct":
            res = p["res"]
            dk = res.get("dk", "")
            path = res.get("path")
            if "Variant" in dk:
                yes, no = self.split(st, t, path)
                un = [no] if no else []
                if not yes:
                    return [], un
                m, u = self._match_seq(yes, [(self.payload(t, path, i), sp) for i, sp in enumerate(p["pats"])])
                return m, un + u
            # a tuple struct taken apart by a pattern: the same components as `t.0`, `t.1` ...
            return self._match_seq(st, [(self.field(t, str(i)), sp) for i, sp in enumerate(p["pats"])])
        if k == "Struct":
            res = p["res"]
            dk = res.get("dk", "")
            path = res.get("path")
            items = []
            if "Variant" in dk:
                yes, no = self.split(st, t, path)
                un = [no] if no else []
                if not yes:
                    return [], un
                for f in p["fields"]:
                    nm = f["name"]
                    sub = self.payload(t, path, int(nm)) if nm.isdigit() else ("field", ("payload", t, path, 0), nm)
                    items.append((sub, f["pat"]))
                m, u = self._match_seq(yes, items)
                return m, un + u
            for f in p["fields"]:
                items.append((self.field(t, f["name"]), f["pat"]))
            return self._match_seq(st, items)
        if k == "PathPat":
            res = p["res"]
            if "Variant" in res.get("dk", ""):
                yes, no = self.split(st, t, res["path"])
                return ([yes] if yes else []), ([no] if no else [])
            c = ("eq", t, ("const", res.get("path")))
            return [st.with_cond(c + (True,))], [st.with_cond(c + (False,))]
        if k == "Lit":
            lit = ("lit", p["lit"]["t"], self._litv(p["lit"]))
            if lit[1] == "bool" and not (t[0] == "lit"):
                y, n = self.split_bool(st, t)
                if not lit[2]:
                    y, n = n, y
                return ([y] if y else []), ([n] if n else [])
            if t == lit:
                return [st], []
            if t[0] == "lit":
                return [], [st]
            for c in st.conds:
                if c[0] == "eq" and c[1] == t and c[2] == lit:
                    return ([st], []) if c[3] else ([], [st])
                if c[0] == "eq" and c[1] == t and c[3] and c[2] != lit and c[2][0] == "lit":
                    return [], [st]
            return [st.with_cond(("eq", t, lit, True))], [st.with_cond(("eq", t, lit, False))]
        if k == "Or":
            matched, rest = [], [st]
            for alt in p["pats"]:
                nxt = []
                for s in rest:
                    m, u = self.match_pat(s, t, alt)
                    matched += m
                    nxt += u
                rest = nxt
            return matched, rest
        if k == "Range":
            c = ("inrange", t, self._patlit(p["lo"]), self._patlit(p["hi"]), p["incl"])
            return [st.with_cond(c + (True,))], [st.with_cond(c + (False,))]
        if k == "Slice":
            if not p["before"] and not p["after"] and not p["slice"]:
                c = ("empty", t)
                for cc in st.conds:
                    if cc[0] == "empty" and cc[1] == t:
                        return ([st], []) if cc[2] else ([], [st])
                return [st.with_cond(c + (True,))], [st.with_cond(c + (False,))]
            nb, na = len(p["before"]), len(p["after"])
            def irrefutable(sp):
                while sp.get("k") in ("Ref", "Deref"):
                    sp = sp["pat"]
                return sp.get("k") == "Wild" or (sp.get("k") == "Bind" and not sp.get("sub"))
            wild = all(irrefutable(sp) for sp in p["before"] + p["after"])
            if nb + na == 1 and p["slice"] and wild:
                # `[_, ..]` / `[.., _]`: the slice is not empty - the same condition as `[]`, negated
                c = ("empty", t)
                known = None
                for cc in st.conds:
                    if cc[0] == "empty" and cc[1] == t:
                        known = cc[2]
                if known is None:
                    yes_l, no_l = [st.with_cond(c + (False,))], [st.with_cond(c + (True,))]
                else:
                    yes_l, no_l = ([], [st]) if known else ([st], [])
                out_m = []
                for y in yes_l:
                    items = [(("index", t, ("lit", "int", i)), sp) for i, sp in enumerate(p["before"])]
                    m1, _ = self._match_seq(y, items)
                    for y2 in m1:
                        out_m += self._bind_rest(y2, t, p, nb, na)
                return out_m, no_l
            if nb == 1 and na == 0 and p["slice"] and self.tag_fn and self._lit_byte(p["before"][0]) is not None:
                # `[b'x', rest @ ..]` on a slice is what the library's own tag(b'x') recognises: evaluated as an application of
                # that combinator (rest = its remainder), so that a parser written with slice patterns is seen like one
                # written with the combinator
                b_ = self._lit_byte(p["before"][0])
                site = loc(p) if p.get("sp") else "?"
                fterm = ("call", self.tag_fn, (("lit", "byte", b_),), site)
                app = ("apply", fterm, (t,), site)
                d = self.decided(st, app, OK)
                outs_y, outs_n = [], []
                if d is not False:
                    y = st.fork() if d is True else st.with_cond(("is", app, OK, True))
                    if not any(e_[0] == "apply" and e_[1] == fterm and e_[2] == (t,) for e_ in y.effects):
                        y.add_effect(("call", self.tag_fn, (("lit", "byte", b_),), site))
                        y.add_effect(("apply", fterm, (t,), site))
                    sl = p.get("slice")
                    if isinstance(sl, dict) and sl.get("k") == "Bind":
                        m_, _ = self.match_pat(y, ("tproj", ("payload", app, OK, 0), 0), sl)
                        outs_y += m_
                    else:
                        outs_y.append(y)
                if d is not True:
                    n_ = st.fork() if d is False else st.with_cond(("is", app, OK, False))
                    if not any(e_[0] == "apply" and e_[1] == fterm and e_[2] == (t,) for e_ in n_.effects):
                        n_.add_effect(("call", self.tag_fn, (("lit", "byte", b_),), site))
                        n_.add_effect(("apply", fterm, (t,), site))
                    outs_n.append(n_)
                return outs_y, outs_n
            c = ("slicepat", t, nb, bool(p["slice"]), na)
            yes = st.with_cond(c + (True,))
            items = [(("index", t, ("lit", "int", i)), sp) for i, sp in enumerate(p["before"])]
            m, u = self._match_seq(yes, items)
            m2 = []
            for y in m:
                m2 += self._bind_rest(y, t, p, nb, na)
            return m2, [st.with_cond(c + (False,))] + u
        if k == "Guard":
            m, u = self.match_pat(st, t, p["pat"])
            return m, u
        raise Unsupported("pattern " + k)

    def _lit_byte(self, sp):
        while sp.get("k") in ("Ref", "Deref"):
            sp = sp["pat"]
        if sp.get("k") == "Lit" and sp["lit"].get("t") in ("byte", "int") and isinstance(sp["lit"].get("v"), int):
            return sp["lit"]["v"]
        return None

    def _bind_rest(self, st, t, p, nb, na):
        """`rest @ ..` in a slice pattern without trailing elements is t[nb..]"""
        sl = p.get("slice")
        if isinstance(sl, dict) and sl.get("k") == "Bind" and na == 0:
            rest = ("index", t, ("struct", "core::ops::range::RangeFrom", (("start", ("lit", "int", nb)),)))
            m, _ = self.match_pat(st, rest, sl)
            return m
        return [st]

    def _patlit(self, p):
        if p is None:
            return None
        if p["k"] == "Lit":
            return self._litv(p["lit"])
        return ("const", p.get("res", {}).get("path"))

    def _litv(self, lit):
        v = lit.get("v")
        if isinstance(v, list):
            return tuple(v)
        return v

    def _match_seq(self, st, items):
        matched, unmatched = [st], []
        for (t, sp) in items:
            nxt = []
            for s in matched:
                m, u = self.match_pat(s, t, sp)
                nxt += m
                unmatched += u
            matched = nxt
        return matched, unmatched

    # ------------------------------------------------------------------ term helpers
    def tproj(self, t, i):
        if t[0] == "tuple" and i < len(t[1]):
            return t[1][i]
        if t[0] == "call" and t[1].split("::")[-1] in ("split_at", "split_at_mut") and "slice" in t[1] and len(t[2]) == 2 and i in (0, 1):
            # the halves of s.split_at(k) are s[..k] and s[k..] (the bounds check is the split's own panic edge)
            b, k = t[2]
            if i == 0:
                return ("index", b, ("struct", "core::ops::range::RangeTo", (("end", k),)))
            return ("index", b, ("struct", "core::ops::range::RangeFrom", (("start", k),)))
        return ("tproj", t, i)

    def field(self, t, name):
        if t[0] == "tuple" and name.isdigit() and int(name) < len(t[1]):
            return t[1][int(name)]
        if t[0] == "struct":
            for (n, v) in t[2]:
                if n == name:
                    return v
        if name.isdigit():
            return self.tproj(t, int(name))
        return ("field", t, name)

    # ------------------------------------------------------------------ evaluation
    def ev_list(self, es, st):
        """-> (list of (st, [vals]), abnormal outcomes)"""
        cur = [(st, [])]
        ab = []
        for e in es:
            nxt = []
            for (s, vals) in cur:
                for o in self.ev(e, s):
                    if o[0] == "val":
                        nxt.append((o[1], vals + [o[2]]))
                    else:
                        ab.append(o)
            cur = nxt
        return cur, ab

    def ev(self, e, st):
        self.npaths += 1
        if self.npaths > self.MAX_PATHS * 50:
            raise Unsupported("path explosion")
        k = e["k"]
        m = getattr(self, "ev_" + k, None)
        if m is None:
            raise Unsupported("expr kind %s at %s" % (k, loc(e)))
        return m(e, st)

    def ev_Lit(self, e, st):
        return [("val", st, ("lit", e["lit"]["t"], self._litv(e["lit"])))]

    def ev_Path(self, e, st):
        r = e["res"]
        if r["r"] == "Local":
            rid_ = self._alias.get(r["id"], r["id"])
            return [("val", st, st.env.get(rid_, ("local", rid_, r["name"])))]
        if r["r"] == "Def":
            dk = r["dk"]
            if dk.startswith("Ctor"):
                if "Const" in dk:
                    return [("val", st, ("ctor", r["path"], ()))]
                return [("val", st, ("fn", r["path"]))]
            if dk in ("Fn", "AssocFn"):
                return [("val", st, ("fn", base_path(r.get("resolved") or r["path"])))]
            if dk == "ConstParam":
                return [("val", st, ("constparam", r["path"].split("::")[-1]))]
            if "Const" in dk:
                if "value" in r:
                    return [("val", st, ("lit", "int", r["value"]))]
                body = self.consts.get(r["path"])
                if body is not None and self._inl_depth < 4:
                    self._inl_depth += 1
                    try:
                        outs = [o for o in self.ev(body, St(st.conds, st.effects, dict(st.env))) if o[0] == "val"]
                    finally:
                        self._inl_depth -= 1
                    if len(outs) == 1 and outs[0][1].effects == st.effects:
                        return [("val", st, outs[0][2])]
                return [("val", st, ("const", r["path"]))]
            if dk.startswith("Static"):
                return [("val", st, ("static", r["path"]))]
            return [("val", st, ("def", dk, r["path"]))]
        return [("val", st, ("other", str(r)))]

    def ev_Tup(self, e, st):
        cur, ab = self.ev_list(e["es"], st)
        return [("val", s, ("tuple", tuple(v)) if v else UNIT) for (s, v) in cur] + ab

    def ev_Array(self, e, st):
        cur, ab = self.ev_list(e["es"], st)
        return [("val", s, ("array", tuple(v))) for (s, v) in cur] + ab

    def ev_Repeat(self, e, st):
        return self._map1(e["e"], st, lambda s, v: [("val", s, ("repeat", v))])

    def ev_Struct(self, e, st):
        cur, ab = self.ev_list([f["e"] for f in e["fields"]], st)
        names = [f["name"] for f in e["fields"]]
        path = e["res"].get("path")
        return [("val", s, ("struct", path, tuple(zip(names, v)))) for (s, v) in cur] + ab

    def _map1(self, e, st, f):
        out = []
        for o in self.ev(e, st):
            if o[0] == "val":
                out += f(o[1], o[2])
            else:
                out.append(o)
        return out

    def ev_AddrOf(self, e, st):
        return self.ev(e["e"], st)

    def ev_Cast(self, e, st):
        # a cast that keeps every value of the source type (u8 -> usize ...) is marked "exact": only those are
        # transparent to the linear arithmetic (linform)
        if e["ty"] == "char" and e["e"].get("ty", "") == "u8":
            def tochar(s, v):
                if v[0] == "lit" and isinstance(v[2], int) and not isinstance(v[2], bool):
                    return [("val", s, ("lit", "char", v[2]))]
                return [("val", s, ("cast", v, "char"))]
            return self._map1(e["e"], st, tochar)
        if exact_int_cast(e["e"].get("ty", ""), e["ty"]):
            return self._map1(e["e"], st, lambda s, v: [("val", s, ("cast", v, e["ty"], "exact"))])
        return self._map1(e["e"], st, lambda s, v: [("val", s, ("cast", v, e["ty"]))])

    def ev_Unary(self, e, st):
        op = e["op"]
        if op == "Deref":
            return self.ev(e["e"], st)
        tag = "not" if op == "Not" else "neg"

        def f(s, v):
            if tag == "not" and v[0] == "lit" and v[1] == "bool":
                return [("val", s, ("lit", "bool", not v[2]))]
            return [("val", s, (tag, v))]
        return self._map1(e["e"], st, f)

    def ev_Binary(self, e, st):
        op = e["op"]
        if op in ("And", "Or"):
            t, f, ab = self.branch(e, st)
            return [("val", s, ("lit", "bool", True)) for s in t] + [("val", s, ("lit", "bool", False)) for s in f] + ab
        cur, ab = self.ev_list([e["l"], e["r"]], st)
        if op in ("Add", "Sub", "Mul", "Div", "Rem", "Shl", "Shr") and "callee" not in e:
            out = []
            for (s, v) in cur:
                s = s.fork()
                s.add_effect(("arith", op, v[0], v[1], loc(e), tuple(e.get("sp") or ())))
                out.append(("val", s, ("bin", op, v[0], v[1])))
            return out + ab
        return [("val", s, ("bin", op, v[0], v[1])) for (s, v) in cur] + ab

    def ev_Field(self, e, st):
        return self._map1(e["e"], st, lambda s, v: [("val", s, self.field(v, e["name"]))])

    def ev_Index(self, e, st):
        cur, ab = self.ev_list([e["e"], e["i"]], st)
        out = []
        for (s, v) in cur:
            s = s.fork()
            s.add_effect(("index", v[0], v[1], loc(e), tuple(e.get("sp") or ())))
            out.append(("val", s, ("index", v[0], v[1])))
        return out + ab

    def ev_Closure(self, e, st):
        key = e["def"]
        self.closures[key] = e
        # literal values of captured locals are part of the closure's identity (the same closure text created inside a
        # helper that is evaluated in place with different arguments denotes different predicates)
        refs = self._closure_refs.get(key)
        if refs is None:
            from hir import walk
            refs = set()
            for x in walk(e["body"]):
                if x.get("k") == "Path" and x["res"].get("r") == "Local":
                    refs.add(x["res"]["id"])
            self._closure_refs[key] = refs
        # ... and so are captured function values (a combinator `either(first, second)` evaluated in place returns a
        # closure over the two parsers it was given)
        def funval(v):
            return v[0] in ("lit", "closure", "fn") or (v[0] == "call" and v[1].startswith("microscpi::") and len(v) > 2)
        cap = tuple(sorted(((i, v) for i, v in st.env.items() if i in refs and isinstance(v, tuple) and v and funval(v)), key=lambda iv: iv[0]))
        if cap:
            return [("val", st, ("closure", key, cap))]
        return [("val", st, ("closure", key))]

    def ev_Ret(self, e, st):
        if e.get("e"):
            return self._map1(e["e"], st, lambda s, v: [("ret", s, v)])
        return [("ret", st, UNIT)]

    def ev_Break(self, e, st):
        if e.get("e"):
            return self._map1(e["e"], st, lambda s, v: [("brk", s, v, e.get("label"))])
        return [("brk", st, UNIT, e.get("label"))]

    def ev_Continue(self, e, st):
        return [("cont", st, UNIT, e.get("label"))]

    def ev_Assign(self, e, st):
        return self._assign(e["l"], e["r"], st, None)

    def ev_AssignOp(self, e, st):
        return self._assign(e["l"], e["r"], st, e["op"].replace("Assign", ""), e.get("sp"))

    def _assign(self, l, r, st, op, node_sp=None):
        out = []
        lhs = l
        while lhs["k"] == "Unary" and lhs["op"] == "Deref":
            # `*value = x`: a store through a reference unless the reference is a plain local
            break
        for o in self.ev(r, st):
            if o[0] != "val":
                out.append(o)
                continue
            s, v = o[1], o[2]
            fld = self._struct_field_target(lhs, s)
            if fld is not None:
                # `x.f = v` / `x.f op= v` on a local that holds a struct value: the value is updated field by field
                lid, fname, cur_struct = fld
                s = s.fork()
                oldv = self.field(cur_struct, fname)
                if op:
                    s.add_effect(("arith", op, oldv, v, loc(l), tuple((node_sp or l.get("sp")) or ())))
                    v = ("bin", op, oldv, v)
                s.env[lid] = ("struct", cur_struct[1], tuple((n, (v if n == fname else t)) for (n, t) in cur_struct[2]))
                out.append(("val", s, UNIT))
                continue
            if lhs["k"] == "Path" and lhs["res"]["r"] == "Local":
                s = s.fork()
                lid = self._alias.get(lhs["res"]["id"], lhs["res"]["id"])
                if op:
                    old = s.env.get(lid, ("local", lid, lhs["res"]["name"]))
                    s.add_effect(("arith", op, old, v, loc(l), tuple((node_sp or l.get("sp")) or ())))
                    v = ("bin", op, old, v)
                s.env[lid] = v
                out.append(("val", s, UNIT))
            else:
                for o2 in self.ev(lhs["e"] if lhs["k"] == "Unary" else lhs, s):
                    if o2[0] != "val":
                        out.append(o2)
                        continue
                    s2 = o2[1].fork()
                    s2.add_effect(("store", o2[2], v, op, loc(l)))
                    out.append(("val", s2, UNIT))
        return out

    def _struct_field_target(self, lhs, st):
        """lhs = <local>.<field> (through derefs / reborrows) where the local currently holds a struct value with that
        field -> (local id, field name, struct term)"""
        if lhs.get("k") != "Field":
            return None
        base = lhs["e"]
        while base.get("k") in ("Unary", "AddrOf", "DropTemps", "Use") and (base.get("k") != "Unary" or base.get("op") == "Deref"):
            base = base["e"]
        if base.get("k") == "Path" and base["res"].get("r") == "Local":
            bid = self._alias.get(base["res"]["id"], base["res"]["id"])
            cur = st.env.get(bid)
            if isinstance(cur, tuple) and cur and cur[0] == "struct" and any(n == lhs["name"] for n, _ in cur[2]):
                return bid, lhs["name"], cur
        return None

    def ev_Await(self, e, st):
        def f(s, v):
            s = s.fork()
            s.add_effect(("await", v, loc(e)))
            return [("val", s, v)]
        return self._map1(e["e"], st, f)

    def ev_Yield(self, e, st):
        return self._map1(e["e"], st, lambda s, v: [("val", s, ("yield", v))])

    def ev_Try(self, e, st):
        inner_ty = e["e"].get("ty", "")
        head, gargs = split_generics(inner_ty)
        to_head, to_gargs = split_generics(e.get("to_ty", ""))
        out = []
        for o in self.ev(e["e"], st):
            if o[0] != "val":
                out.append(o)
                continue
            s, v = o[1], o[2]
            if head == OPTION:
                yes, no = self.split(s, v, SOME)
                if yes:
                    out.append(("val", yes, self.payload(v, SOME, 0)))
                if no:
                    out.append(("err", no, ("ctor", NONE, ()), loc(e)))
                continue
            yes, no = self.split(s, v, OK)
            if yes:
                out.append(("val", yes, self.payload(v, OK, 0)))
            if no:
                pe = self.payload(v, ERR, 0)
                ety = gargs[1] if len(gargs) > 1 else "?"
                tty = to_gargs[1] if len(to_gargs) > 1 else "?"
                if ety != tty:
                    pe = ("from", pe, ety, tty)
                out.append(("err", no, ("ctor", ERR, (pe,)), loc(e)))
        return out

    # -- blocks
    def ev_Block(self, e, st):
        cur = [st]
        ab = []
        for s in e["stmts"]:
            nxt = []
            for c in cur:
                if s["k"] == "Let":
                    if "init" not in s:
                        nxt.append(c)
                        continue
                    for o in self.ev(s["init"], c):
                        if o[0] != "val":
                            ab.append(o)
                            continue
                        m, u = self.match_pat(o[1], o[2], s["pat"])
                        nxt += m
                        if "els" in s:
                            for us in u:
                                for o2 in self.ev(s["els"], us):
                                    if o2[0] != "val":
                                        ab.append(o2)
                else:
                    for o in self.ev(s["e"], c):
                        if o[0] == "val":
                            nxt.append(o[1])
                        else:
                            ab.append(o)
            cur = nxt
        out = []
        if e.get("expr"):
            for c in cur:
                out += self.ev(e["expr"], c)
        else:
            out = [("val", c, UNIT) for c in cur]
        res = []
        label = e.get("label")
        for o in out + ab:
            if label and o[0] == "brk" and o[3] == label:
                res.append(("val", o[1], o[2]))
            else:
                res.append(o)
        return res

    # -- conditions
    def branch(self, c, st):
        """-> (true states, false states, abnormal outcomes)"""
        k = c["k"]
        if k == "Unary" and c["op"] == "Not":
            t, f, ab = self.branch(c["e"], st)
            return f, t, ab
        if k == "Binary" and c["op"] == "And":
            t1, f1, ab = self.branch(c["l"], st)
            ts, fs = [], list(f1)
            for s in t1:
                t2, f2, ab2 = self.branch(c["r"], s)
                ts += t2
                fs += f2
                ab += ab2
            return ts, fs, ab
        if k == "Binary" and c["op"] == "Or":
            t1, f1, ab = self.branch(c["l"], st)
            ts, fs = list(t1), []
            for s in f1:
                t2, f2, ab2 = self.branch(c["r"], s)
                ts += t2
                fs += f2
                ab += ab2
            return ts, fs, ab
        if k == "LetCond":
            ts, fs, ab = [], [], []
            for o in self.ev(c["init"], st):
                if o[0] != "val":
                    ab.append(o)
                    continue
                m, u = self.match_pat(o[1], o[2], c["pat"])
                ts += m
                fs += u
            return ts, fs, ab
        ts, fs, ab = [], [], []
        for o in self.ev(c, st):
            if o[0] != "val":
                ab.append(o)
                continue
            y, n = self.split_bool(o[1], o[2])
            if y:
                ts.append(y)
            if n:
                fs.append(n)
        return ts, fs, ab

    def ev_If(self, e, st):
        ts, fs, ab = self.branch(e["cond"], st)
        out = list(ab)
        for s in ts:
            out += self.ev(e["then"], s)
        for s in fs:
            if e.get("else"):
                out += self.ev(e["else"], s)
            else:
                out.append(("val", s, UNIT))
        return out

    def ev_LetCond(self, e, st):
        ts, fs, ab = self.branch(e, st)
        return [("val", s, ("lit", "bool", True)) for s in ts] + [("val", s, ("lit", "bool", False)) for s in fs] + ab

    def ev_Match(self, e, st):
        out = []
        for o in self.ev(e["scrut"], st):
            if o[0] != "val":
                out.append(o)
                continue
            rest = [o[1]]
            v = o[2]
            for arm in e["arms"]:
                nxt = []
                for s in rest:
                    m, u = self.match_pat(s, v, arm["pat"])
                    nxt += u
                    for ms in m:
                        if arm.get("guard"):
                            gt, gf, gab = self.branch(arm["guard"], ms)
                            out += gab
                            for g in gt:
                                out += self.ev(arm["body"], g)
                            # guard false: falls to the next arms (bindings are harmless)
                            nxt += gf
                        else:
                            out += self.ev(arm["body"], ms)
                rest = nxt
        return out

    # -- loops
    def _assigned_locals(self, e):
        from hir import walk
        ids = {}
        for x in walk(e):
            k = x.get("k")
            tgt = None
            if k in ("Assign", "AssignOp"):
                tgt = x["l"]
            elif k == "AddrOf" and x.get("mut"):
                tgt = x["e"]
            elif k == "MethodCall" and x["recv"].get("k") == "Path" and "&mut" in (x["recv"].get("aty") or ""):
                tgt = x["recv"]
            if tgt is not None:
                while tgt.get("k") in ("Field", "Index", "Unary"):
                    tgt = tgt["e"]
                if tgt.get("k") == "Path" and tgt["res"].get("r") == "Local":
                    ids[self._alias.get(tgt["res"]["id"], tgt["res"]["id"])] = tgt["res"]["name"]
        return ids

    def _loop(self, e, st, body_fn, exits_on_cond):
        """Generic loop: body_fn(head_state) -> (outcomes of one iteration, exit states when the
        loop condition fails at the head)."""
        site = loc(e)
        label = e.get("label")
        info = self.loops.setdefault(site, {"entry": [], "vars": {}})
        est = st.fork()
        est.env = expand_struct_locals(est.env)
        info["entry"].append(est)
        head = st.fork()
        for lid, name in self._assigned_locals(e).items():
            cur = st.env.get(lid)
            if isinstance(cur, tuple) and cur and cur[0] == "struct" and cur[2]:
                head.env[lid] = ("struct", cur[1], tuple((fn_, ("loopvar", "%s.%s" % (lid, fn_), "%s.%s" % (name, fn_), site)) for (fn_, _) in cur[2]))
                for (fn_, _) in cur[2]:
                    info["vars"]["%s.%s" % (lid, fn_)] = "%s.%s" % (name, fn_)
                continue
            head.env[lid] = ("loopvar", lid, name, site)
            info["vars"][lid] = name
        head.add_effect(("loop_head", site))
        outs, cond_exits = body_fn(head)
        res = []
        for s in cond_exits:
            res.append(("val", s, UNIT))
        for o in outs:
            k = o[0]
            if k == "val":
                res.append(("backedge", o[1], UNIT, site))
            elif k == "cont" and (o[3] is None or o[3] == label):
                res.append(("backedge", o[1], UNIT, site))
            elif k == "brk" and (o[3] is None or o[3] == label):
                res.append(("val", o[1], o[2]))
            else:
                res.append(o)
        return res

    def ev_Loop(self, e, st):
        return self._loop(e, st, lambda h: (self.ev(e["body"], h), []), False)

    def _counting_scan(self, e, st):
        """`while k < x.len() && C(x[k]) { k += 1 }` entered with k = 0 is the search for the first element of x that fails
        C: afterwards k = x.iter().position(|b| !C(b)).unwrap_or(x.len()).  Recognised on the HIR and summarised as that
        search (two outcomes: found / not found), so that rules which read a terminator or prefix search off `position()`
        see an open-coded scan the same way.  -> outcomes, or None when the loop is not of this form."""
        import copy
        from hir import strip, walk
        c = strip(e["cond"])
        if c.get("k") != "Binary" or c.get("op") != "And":
            return None
        lt, C = strip(c["l"]), c["r"]
        if lt.get("k") != "Binary" or lt.get("op") not in ("Lt", "Gt"):
            return None
        a, b = (strip(lt["l"]), strip(lt["r"])) if lt["op"] == "Lt" else (strip(lt["r"]), strip(lt["l"]))
        if not (a.get("k") == "Path" and a["res"].get("r") == "Local" and b.get("k") == "MethodCall" and b.get("name") == "len" and not b.get("args")):
            return None
        X = strip(b["recv"])
        if not (X.get("k") == "Path" and X["res"].get("r") == "Local"):
            return None
        kid, xid = a["res"]["id"], X["res"]["id"]
        if st.env.get(kid) != ("lit", "int", 0):
            return None
        body = strip(e["body"])
        if body.get("k") != "Block" or body.get("expr") or len(body["stmts"]) != 1 or body["stmts"][0]["k"] != "Semi":
            return None
        inc = strip(body["stmts"][0]["e"])
        ok = (inc.get("k") == "AssignOp" and inc.get("op") in ("Add", "AddAssign") and strip(inc["l"]).get("k") == "Path" and strip(inc["l"])["res"].get("id") == kid
              and strip(inc["r"]).get("k") == "Lit" and strip(inc["r"])["lit"].get("v") == 1)
        if not ok:
            return None
        # C mentions k only as the index of x[k], and x is not assigned in the loop
        if xid in self._assigned_locals(e):
            return None
        sid = kid + "$elem"
        Cn = copy.deepcopy(C)
        n_elem = [0]

        def rewrite(n):
            if isinstance(n, dict):
                if n.get("k") == "Index":
                    base, idx = strip(n["e"]), strip(n["i"]) if "i" in n else None
                    if idx is not None and base.get("k") == "Path" and base["res"].get("id") == xid and idx.get("k") == "Path" and idx["res"].get("id") == kid:
                        n_elem[0] += 1
                        return {"k": "Path", "res": {"r": "Local", "id": sid, "name": "elem"}, "ty": "u8", "sp": n.get("sp")}
                return {k2: rewrite(v2) for k2, v2 in n.items()}
            if isinstance(n, list):
                return [rewrite(v2) for v2 in n]
            return n
        Cn = rewrite(Cn)
        if n_elem[0] == 0 or any(x.get("k") == "Path" and x["res"].get("id") == kid for x in walk(Cn)):
            return None
        guarded = []
        for n in walk(C):
            if n.get("k") == "Index" and strip(n["e"]).get("k") == "Path" and strip(n["e"])["res"].get("id") == xid and strip(n["i"]).get("k") == "Path" and strip(n["i"])["res"].get("id") == kid:
                guarded.append(tuple(n.get("sp") or ()))
        guarded.append(tuple(inc.get("sp") or ()))
        key = loc(e) + "::{scan}"
        self.closures[key] = {"k": "Closure", "def": key, "params": [{"k": "Bind", "id": sid, "name": "elem", "ty": "u8"}],
                              "body": {"k": "Unary", "op": "Not", "e": Cn, "ty": "bool", "sp": e.get("sp")}}
        site = loc(e)
        out = []
        for o in self.ev(X, st):
            if o[0] != "val":
                out.append(o)
                continue
            xt = o[2]
            it = ("call", "core::slice::iter", (xt,), site)
            pos = ("call", "<core::slice::iter::Iter<'a, T> as core::iter::traits::iterator::Iterator>::position", (it, ("closure", key)), site)
            for found in (True, False):
                s2 = o[1].fork()
                # x[k] is evaluated only behind `k < x.len()`, and k + 1 <= x.len() where k is incremented
                s2.add_effect(("idiom", "counting-scan", tuple(guarded), site))
                s2.add_effect(("call", it[1], it[2], site))
                s2.add_effect(("call", pos[1], pos[2], site))
                s2 = s2.with_cond(("is", pos, SOME, found))
                s2.env[kid] = ("payload", pos, SOME, 0) if found else ("call", "core::slice::len", (xt,), site)
                out.append(("val", s2, UNIT))
        return out

    def ev_While(self, e, st):
        scan = self._counting_scan(e, st)
        if scan is not None:
            return scan

        def body(h):
            ts, fs, ab = self.branch(e["cond"], h)
            outs = list(ab)
            for s in ts:
                outs += self.ev(e["body"], s)
            return outs, fs
        return self._loop(e, st, body, True)

    def ev_For(self, e, st):
        out = []
        for o in self.ev(e["iter"], st):
            if o[0] != "val":
                out.append(o)
                continue
            itv = o[2]
            arr = itv
            while arr[0] == "call" and arr[1].split("::")[-1] in ("iter", "into_iter") and arr[2]:
                arr = arr[2][0]
            if arr[0] == "array" and 0 < len(arr[1]) <= 16:
                out += self._unrolled_for(e, o[1], arr[1])
                continue

            def body(h, itv=itv):
                item = ("iter_item", itv, loc(e))
                m, _ = self.match_pat(h, item, e["pat"])
                outs = []
                for s in m:
                    outs += self.ev(e["body"], s)
                return outs, [h]
            out += self._loop(e, o[1], body, True)
        return out

    def _unrolled_for(self, e, st, items):
        """`for x in [a, b, c]` over a literal array: the body is evaluated once per element, in order."""
        label = e.get("label")
        cur = [st]
        res = []
        for item in items:
            nxt = []
            for s in cur:
                m, _ = self.match_pat(s, item, e["pat"])
                for ms in m:
                    for o in self.ev(e["body"], ms):
                        k = o[0]
                        if k == "val" or (k == "cont" and (o[3] is None or o[3] == label)):
                            nxt.append(o[1])
                        elif k == "brk" and (o[3] is None or o[3] == label):
                            res.append(("val", o[1], UNIT))
                        else:
                            res.append(o)
            cur = nxt
        return res + [("val", s, UNIT) for s in cur]

    # -- calls
    def apply_closure(self, key, args, st, cap=None):
        c = self.closures[key]
        s = st
        if cap:
            s = st.fork()
            for (i_, v_) in cap:
                s.env[i_] = v_        # what the closure captured when it was created
        for p, a in zip(c["params"], args):
            m, _ = self.match_pat(s, a, p)
            if not m:
                return []
            s = m[0]
        res = []
        MISSING = ("__missing__",)
        saved = {i_: st.env.get(i_, MISSING) for (i_, _) in (cap or ())}
        for o in self.ev(c["body"], s):
            if saved and len(o) > 1 and isinstance(o[1], St):
                # the captured bindings are the closure's own frame: the caller's bindings come back when it returns
                s3 = o[1].fork()
                for i_, v_ in saved.items():
                    if v_ is MISSING:
                        s3.env.pop(i_, None)
                    else:
                        s3.env[i_] = v_
                o = (o[0], s3) + tuple(o[2:])
            if o[0] in ("val", "ret"):
                res.append(("val", o[1], o[2]))
            elif o[0] == "err":
                res.append(("val", o[1], o[2]))
            else:
                res.append(o)
        return res

    def can_inline(self, callee):
        return callee in self.inline and callee not in self._inl_stack and self._inl_depth <= 4

    def inline_call(self, callee, args, st, node=None):
        b = self.inline[callee]
        self._inl_depth += 1
        self._inl_stack.append(callee)
        # generic helper: its type parameters stand for the generic arguments of this call
        old_sub = self._tsub
        added = []
        gn, ga = b.get("generics") or [], (node or {}).get("gargs") or []
        if gn and len(gn) == len(ga):
            self._tsub = dict(old_sub)
            self._tsub.update({n: old_sub.get(a, a) for n, a in zip(gn, ga) if not n.startswith("'")})
        try:
            s = st
            restore, added = self._value_aliases(b, node, st)
            for p, a in zip(b["params"], args):
                m, _ = self.match_pat(s, a, p)
                if not m:
                    return []
                s = m[0]
            back = self._mut_ref_args(b, node)
            res = []
            for o in self.ev(b["value"], s):
                if (back or restore) and o[0] in ("val", "ret", "err"):
                    s3 = o[1].fork()
                    for (pid_, lid_) in back:
                        if pid_ in s3.env:
                            s3.env[lid_] = s3.env[pid_]
                    for (lid_, before) in restore:
                        s3.env[lid_] = before       # the helper worked on its own copy
                    o = (o[0], s3) + tuple(o[2:])
                if o[0] in ("val", "ret", "err"):
                    res.append(("val", o[1], o[2]))
                else:
                    res.append(o)
            return res
        finally:
            self._inl_depth -= 1
            self._inl_stack.pop()
            self._tsub = old_sub
            for k_ in added:
                self._alias.pop(k_, None)

    def _value_aliases(self, b, node, st):
        """A by-value parameter that the helper assigns in a loop and that is fed from a plain local of the caller
        (`mut proc_offset: usize` <- `proc_offset`) is evaluated under the caller's local id, so that a loop moved into a
        helper carries the same variables as before; the caller's local gets its own value back when the helper returns.
        -> [(caller local id, value before the call)]"""
        added = []
        if not node:
            return [], added
        argn = ([node["recv"]] if node.get("k") == "MethodCall" else []) + list(node.get("args") or [])
        assigned = self._assigned_locals(b["value"])
        # `async fn`: the coroutine body re-binds every parameter (`let mut p = p;`) - the re-binding is the variable
        from hir import walk, strip
        rebind = {}
        for x_ in walk(b["value"]):
            if x_.get("k") == "Block":
                for st_ in x_["stmts"]:
                    if st_["k"] == "Let" and st_["pat"].get("k") == "Bind" and "init" in st_:
                        i_ = strip(st_["init"])
                        if i_.get("k") == "Path" and i_["res"].get("r") == "Local":
                            rebind.setdefault(i_["res"]["id"], st_["pat"]["id"])
        out = []
        for p_, a_ in zip(b["params"], argn):
            pty = p_.get("ty") or ""
            by_mut_ref = pty.startswith("&mut ")
            if p_.get("k") != "Bind" or ("&" in pty and not by_mut_ref):
                continue
            ids_ = [p_["id"]] + ([rebind[p_["id"]]] if p_["id"] in rebind else [])
            if not any(i_ in assigned for i_ in ids_):
                continue
            a2 = a_
            while isinstance(a2, dict) and (a2.get("k") in ("DropTemps", "Use") or (by_mut_ref and (a2.get("k") == "AddrOf" or (a2.get("k") == "Unary" and a2.get("op") == "Deref")))):
                a2 = a2["e"]
            if isinstance(a2, dict) and a2.get("k") == "Path" and a2["res"].get("r") == "Local":
                lid = self._alias.get(a2["res"]["id"], a2["res"]["id"])
                if lid in self._alias.values() or p_["id"] in self._alias:
                    continue
                for i_ in ids_:
                    self._alias[i_] = lid
                    added.append(i_)
                if not by_mut_ref:
                    out.append((lid, st.env.get(lid, ("local", lid, a2["res"]["name"]))))
        return out, added

    def _mut_ref_args(self, b, node):
        """(helper parameter id, caller local id) for every `&mut <local>` argument (or auto-borrowed `&mut self` receiver)
        of a call that is evaluated in place: what the helper leaves in the parameter is what the caller's local holds
        afterwards."""
        if not node:
            return []
        from hir import strip
        argn = ([node["recv"]] if node.get("k") == "MethodCall" else []) + list(node.get("args") or [])
        out = []
        for p_, a_ in zip(b["params"], argn):
            if p_.get("k") != "Bind" or "&mut" not in (p_.get("ty") or ""):
                continue
            a2 = a_
            while isinstance(a2, dict) and a2.get("k") in ("AddrOf", "DropTemps", "Use") or (isinstance(a2, dict) and a2.get("k") == "Unary" and a2.get("op") == "Deref"):
                a2 = a2["e"]
            if isinstance(a2, dict) and a2.get("k") == "Path" and a2["res"].get("r") == "Local":
                out.append((p_["id"], a2["res"]["id"]))
        return out

    def call_fn_term(self, ft, args, st, site, node):
        if ft[0] == "closure":
            return self.apply_closure(ft[1], args, st, ft[2] if len(ft) > 2 else None)
        s = st.fork()
        if ft[0] == "fn":
            if ft[1] in (OK, ERR, SOME):
                return [("val", st, ("ctor", ft[1], tuple(args)))]
            if self.can_inline(ft[1]):
                return self.inline_call(ft[1], list(args), st)
            s.add_effect(("call", ft[1], tuple(args), site))
            return [("val", s, ("call", ft[1], tuple(args), site))]
        s.add_effect(("apply", ft, tuple(args), site))
        return [("val", s, ("apply", ft, tuple(args), site))]

    def ev_Call(self, e, st):
        ck = e.get("callee_kind", "")
        site = loc(e)
        if e.get("callee") and ck.startswith("Ctor"):
            cur, ab = self.ev_list(e["args"], st)
            return [("val", s, ("ctor", e["callee"], tuple(v))) for (s, v) in cur] + ab
        if e.get("callee"):
            callee = base_path(e.get("resolved") or e["callee"])
            if callee in ("core::mem::replace", "core::mem::take") and e["args"]:
                r = self._mem_replace(callee, e, st)
                if r is not None:
                    return r
            cur, ab = self.ev_list(e["args"], st)
            out = list(ab)
            for (s, v) in cur:
                r = self.combinator(callee, v, s, site, e)
                if r is not None:
                    out += r
                    continue
                if callee in self.curried and len(v) >= 2:
                    # uncurried parser factory: f(ctx.., input) is presented as the application f(ctx..)(input)
                    s = s.fork()
                    ft = ("call", callee, tuple(v[:-1]), site)
                    s.add_effect(("call", callee, tuple(v[:-1]), site))
                    s.add_effect(("apply", ft, (v[-1],), site))
                    out.append(("val", s, ("apply", ft, (v[-1],), site)))
                    continue
                if self.can_inline(callee):
                    out += self.inline_call(callee, v, s, e)
                    continue
                s = s.fork()
                s.add_effect(("call", callee, tuple(v), site))
                out.append(("val", s, ("call", callee, tuple(v), site)))
            return out
        cur, ab = self.ev_list([e["f"]] + e["args"], st)
        out = list(ab)
        for (s, v) in cur:
            out += self.call_fn_term(v[0], v[1:], s, site, e)
        return out

    def _mem_replace(self, callee, e, st):
        """core::mem::replace(&mut x, v) / core::mem::take(&mut x) on a local x: yields the old value of x, x holds v (or the
        default of its type: 0 / false for the scalar types)"""
        from hir import strip
        a0 = e["args"][0]
        borrowed_here = False
        while isinstance(a0, dict) and a0.get("k") in ("AddrOf", "DropTemps", "Use"):
            if a0.get("k") == "AddrOf":
                borrowed_here = True
            a0 = a0["e"]
        if not (isinstance(a0, dict) and a0.get("k") == "Path" and a0["res"].get("r") == "Local"):
            return None
        if not borrowed_here:
            # the argument is a `&mut T` held in a local: a store through that reference
            if callee.endswith("::take") or len(e["args"]) != 2:
                return None
            out = []
            for o in self.ev(e["args"][1], st):
                if o[0] != "val":
                    out.append(o)
                    continue
                for o2 in self.ev(a0, o[1]):
                    if o2[0] != "val":
                        out.append(o2)
                        continue
                    s2 = o2[1].fork()
                    s2.add_effect(("store", o2[2], o[2], None, loc(e)))
                    out.append(("val", s2, ("deref_old", o2[2])))
            return out
        lid = self._alias.get(a0["res"]["id"], a0["res"]["id"])
        if callee.endswith("::take"):
            ty = e.get("ty", "")
            if ty in ("usize", "u8", "u16", "u32", "u64", "i8", "i16", "i32", "i64", "isize"):
                news = [("val", st, ("lit", "int", 0))]
            elif ty == "bool":
                news = [("val", st, ("lit", "bool", False))]
            else:
                return None
        else:
            if len(e["args"]) != 2:
                return None
            news = self.ev(e["args"][1], st)
        out = []
        for o in news:
            if o[0] != "val":
                out.append(o)
                continue
            s2 = o[1].fork()
            old = s2.env.get(lid, ("local", lid, a0["res"]["name"]))
            s2.env[lid] = o[2]
            out.append(("val", s2, old))
        return out

    def ev_MethodCall(self, e, st):
        site = loc(e)
        callee = base_path(e.get("resolved") or e.get("callee") or ("?::" + e["name"]))
        if e["name"] == "parse" and callee.endswith("str::parse") and e.get("gargs"):
            callee = callee + "::<%s>" % self._tsub.get(e["gargs"][0], e["gargs"][0])
        cur, ab = self.ev_list([e["recv"]] + e["args"], st)
        out = list(ab)
        if e["name"] == "count" and not e["args"] and self.take_while_fn:
            # `r.iter().take_while(p).count()` is the length of what the library's own take_while(p) takes from r:
            # evaluated as an application of that combinator (never failing, rule PR), so that scanning written with the
            # iterator adaptor is seen by the parser rules like scanning written with the combinator
            res = []
            for (s, v) in cur:
                r = v[0]
                if (r[0] == "call" and r[1].split("::")[-1] == "take_while" and "iter" in r[1].lower() and len(r[2]) == 2 and r[2][1][0] == "closure"
                        and r[2][0][0] == "call" and r[2][0][1].endswith("::iter") and len(r[2][0][2]) == 1):
                    src = r[2][0][2][0]
                    fterm = ("call", self.take_while_fn, (r[2][1],), site)
                    app = ("apply", fterm, (src,), site)
                    s2 = s.fork()
                    s2.effects = tuple(x for x in s2.effects if not (x[0] == "call" and ((x[1] == r[1] and x[2] == r[2]) or (x[1] == r[2][0][1] and x[2] == r[2][0][2]))))
                    s2.add_effect(("call", self.take_while_fn, (r[2][1],), site))
                    s2.add_effect(("apply", fterm, (src,), site))
                    s2 = s2.with_cond(("is", app, OK, True))
                    res.append(("val", s2, ("call", "core::slice::len", (("tproj", ("payload", app, OK, 0), 1),), site)))
                else:
                    res = None
                    break
            if res is not None:
                return out + res
        if e["name"] in BORROW_VIEWS and not e["args"]:
            # a borrowing view of the receiver (`v.as_slice()`, `a.as_ref()` ...) is the receiver's value, and no effect
            return out + [("val", s, v[0]) for (s, v) in cur]
        for (s, v) in cur:
            r = self.combinator(callee, v, s, site, e)
            if r is not None:
                out += r
                continue
            if self.can_inline(callee):
                out += self.inline_call(callee, v, s, e)
                continue
            s = s.fork()
            s.add_effect(("call", callee, tuple(v), site))
            out.append(("val", s, ("call", callee, tuple(v), site)))
        return out

    # -- Result / Option combinators
    def combinator(self, callee, v, st, site, node):
        head = callee
        if head in ("memchr::memchr", "memchr::memchr::memchr") and len(v) == 2 and v[0][0] == "lit" and isinstance(v[0][2], int):
            # memchr(b, s) is s.iter().position(|x| *x == b): presented as that search (a synthetic predicate closure)
            key = site + "::{memchr}"
            sid = key + "$elem"
            self.closures[key] = {"k": "Closure", "def": key, "params": [{"k": "Bind", "id": sid, "name": "elem", "ty": "u8"}],
                                  "body": {"k": "Binary", "op": "Eq", "ty": "bool",
                                           "l": {"k": "Path", "res": {"r": "Local", "id": sid, "name": "elem"}, "ty": "u8"},
                                           "r": {"k": "Lit", "lit": {"t": "byte", "v": v[0][2]}, "ty": "u8"}}}
            it = ("call", "core::slice::iter", (v[1],), site)
            pos = ("call", "<core::slice::iter::Iter<'a, T> as core::iter::traits::iterator::Iterator>::position", (it, ("closure", key)), site)
            s2 = st.fork()
            s2.add_effect(("call", it[1], it[2], site))
            s2.add_effect(("call", pos[1], pos[2], site))
            return [("val", s2, pos)]
        if len(v) == 1 and v[0][0] == "lit" and isinstance(v[0][2], int) and not isinstance(v[0][2], bool) and (node.get("ty") == "char") \
                and head.split("::")[-1] == "from" and "char" in head:
            # char::from(<u8 literal>) is that character
            return [("val", st, ("lit", "char", v[0][2]))]
        if head.endswith("::find") and ("Iterator" in head or "iter::" in head) and len(v) == 2 and v[1][0] == "closure":
            # find(it, pred): Some(item) with pred(item) true for an element of `it`, or None when no element satisfies it
            item = ("iter_item", v[0], site)
            out = []
            for o in self.apply_closure(v[1][1], [item], st, v[1][2] if len(v[1]) > 2 else None):
                if o[0] != "val":
                    out.append(o)
                    continue
                y, n = self.split_bool(o[1], o[2])
                if y:
                    out.append(("val", y, ("ctor", SOME, (item,))))
            s2 = st.fork()
            s2.add_effect(("call", head, tuple(v), site))
            out.append(("val", s2, ("ctor", NONE, ())))
            return out
        for enum, okv, errv in ((RESULT, OK, ERR), (OPTION, SOME, NONE)):
            if not head.startswith(enum + "::"):
                continue
            name = head[len(enum) + 2:]
            recv = v[0]
            is_opt = enum == OPTION

            def on(st, want_ok):
                """states where recv is ok/err"""
                y, n = self.split(st, recv, okv)
                return y if want_ok else n

            def errval():
                return ("ctor", NONE, ()) if is_opt else ("ctor", ERR, (self.payload(recv, ERR, 0),))

            def okval():
                return ("ctor", okv, (self.payload(recv, okv, 0),))

            def apply(f, args, s):
                return self.call_fn_term(f, args, s, site, node)

            out = []
            sy, sn = self.split(st, recv, okv)
            if name == "map":
                if sy:
                    for o in apply(v[1], [self.payload(recv, okv, 0)], sy):
                        out.append(("val", o[1], ("ctor", okv, (o[2],))) if o[0] == "val" else o)
                if sn:
                    out.append(("val", sn, errval()))
                return out
            if name == "map_err" and not is_opt:
                if sy:
                    out.append(("val", sy, okval()))
                if sn:
                    for o in apply(v[1], [self.payload(recv, ERR, 0)], sn):
                        out.append(("val", o[1], ("ctor", ERR, (o[2],))) if o[0] == "val" else o)
                return out
            if name == "map_or" and len(v) == 3:
                if sy:
                    out += apply(v[2], [self.payload(recv, okv, 0)], sy)
                if sn:
                    out.append(("val", sn, v[1]))
                return out
            if name == "map_or_else" and len(v) == 3:
                if sy:
                    out += apply(v[2], [self.payload(recv, okv, 0)], sy)
                if sn:
                    args = [] if is_opt else [self.payload(recv, ERR, 0)]
                    out += apply(v[1], args, sn)
                return out
            if name == "or_else":
                if sy:
                    out.append(("val", sy, okval()))
                if sn:
                    args = [] if is_opt else [self.payload(recv, ERR, 0)]
                    out += apply(v[1], args, sn)
                return out
            if name == "and_then":
                if sy:
                    out += apply(v[1], [self.payload(recv, okv, 0)], sy)
                if sn:
                    out.append(("val", sn, errval()))
                return out
            if name == "unwrap_or":
                if sy:
                    out.append(("val", sy, self.payload(recv, okv, 0)))
                if sn:
                    out.append(("val", sn, v[1]))
                return out
            if name == "unwrap_or_else":
                if sy:
                    out.append(("val", sy, self.payload(recv, okv, 0)))
                if sn:
                    args = [] if is_opt else [self.payload(recv, ERR, 0)]
                    out += apply(v[1], args, sn)
                return out
            if name == "or":
                if sy:
                    out.append(("val", sy, okval()))
                if sn:
                    out.append(("val", sn, v[1]))
                return out
            if name == "and":
                if sy:
                    out.append(("val", sy, v[1]))
                if sn:
                    out.append(("val", sn, errval()))
                return out
            if name == "ok_or" and is_opt:
                if sy:
                    out.append(("val", sy, ("ctor", OK, (self.payload(recv, SOME, 0),))))
                if sn:
                    out.append(("val", sn, ("ctor", ERR, (v[1],))))
                return out
            if name == "ok_or_else" and is_opt:
                if sy:
                    out.append(("val", sy, ("ctor", OK, (self.payload(recv, SOME, 0),))))
                if sn:
                    for o in apply(v[1], [], sn):
                        out.append(("val", o[1], ("ctor", ERR, (o[2],))) if o[0] == "val" else o)
                return out
            if name == "ok" and not is_opt:
                if sy:
                    out.append(("val", sy, ("ctor", SOME, (self.payload(recv, OK, 0),))))
                if sn:
                    out.append(("val", sn, ("ctor", NONE, ())))
                return out
            if name == "err" and not is_opt:
                if sy:
                    out.append(("val", sy, ("ctor", NONE, ())))
                if sn:
                    out.append(("val", sn, ("ctor", SOME, (self.payload(recv, ERR, 0),))))
                return out
            if name in ("unwrap", "expect"):
                if sy:
                    out.append(("val", sy, self.payload(recv, okv, 0)))
                if sn:
                    out.append(("panic", sn, recv, (name, site)))
                return out
            if name in ("is_ok", "is_some"):
                if sy:
                    out.append(("val", sy, ("lit", "bool", True)))
                if sn:
                    out.append(("val", sn, ("lit", "bool", False)))
                return out
            if name in ("is_err", "is_none"):
                if sy:
                    out.append(("val", sy, ("lit", "bool", False)))
                if sn:
                    out.append(("val", sn, ("lit", "bool", True)))
                return out
            return None
        return None


# ---------------------------------------------------------------------- utilities
BORROW_VIEWS = ("as_slice", "as_mut_slice", "as_ref", "as_mut", "deref", "deref_mut", "borrow", "borrow_mut")


def exact_int_cast(src, dst):
    """Does `src as dst` keep every value? usize/isize are taken as 16 bits wide as a target and 64 as a source."""
    def wd(t, as_target):
        t = t.lstrip("&")
        if t in ("usize", "isize"):
            return (t[0], 16 if as_target else 64)
        if t and t[0] in "ui" and t[1:].isdigit():
            return (t[0], int(t[1:]))
        return None
    a, b = wd(src, False), wd(dst, True)
    if a is None or b is None:
        return False
    if a[0] == "u":
        return b[1] >= a[1] if b[0] == "u" else b[1] > a[1]
    return b[0] == "i" and b[1] >= a[1]


def is_slice_get(t):
    """t = <[T]>::get(s, <range>)  (the checked form of &s[range])"""
    if not (isinstance(t, tuple) and t and t[0] == "call" and len(t[2]) == 2 and t[1].split("::")[-1] == "get" and "slice" in t[1]):
        return False
    r = t[2][1]
    return (r[0] == "struct" and "Range" in r[1]) or (r[0] == "call" and r[1].endswith("RangeInclusive::new"))


def strip_sites(t):
    """Remove call-site components from a term so equal computations compare equal."""
    if not isinstance(t, tuple):
        return t
    if t and t[0] in ("call", "apply") and len(t) == 4:
        return (t[0], strip_sites(t[1]), strip_sites(t[2]))
    if t and t[0] in ("loopvar",):
        return t
    return tuple(strip_sites(x) for x in t)


def subterms(t):
    if isinstance(t, tuple):
        yield t
        for x in t:
            yield from subterms(x)


def show_term(t, depth=0):
    if not isinstance(t, tuple) or not t:
        return repr(t)
    if depth > 8:
        return "…"
    d = depth + 1
    k = t[0]
    if k == "param":
        return t[1]
    if k == "local":
        return t[2]
    if k == "loopvar":
        return t[2] + "@head"
    if k == "lit":
        if t[1] == "byte":
            return "b%r" % chr(t[2])
        return repr(t[2])
    if k == "unit":
        return "()"
    if k in ("fn", "static", "const"):
        return t[1].split("::")[-1]
    if k == "ctor":
        n = t[1].split("::")[-1]
        return n + ("(%s)" % ", ".join(show_term(x, d) for x in t[2]) if t[2] else "")
    if k == "struct":
        return "%s{%s}" % ((t[1] or "Self").split("::")[-1], ", ".join("%s: %s" % (n, show_term(v, d)) for n, v in t[2]))
    if k in ("tuple", "array"):
        return "(%s)" % ", ".join(show_term(x, d) for x in t[1])
    if k == "call":
        return "%s(%s)" % (t[1].split("::")[-1], ", ".join(show_term(x, d) for x in t[2]))
    if k == "apply":
        return "%s(%s)" % (show_term(t[1], d), ", ".join(show_term(x, d) for x in t[2]))
    if k == "payload":
        return "%s.%s#%d" % (show_term(t[1], d), t[2].split("::")[-1], t[3])
    if k == "tproj":
        return "%s.%d" % (show_term(t[1], d), t[2])
    if k == "field":
        return "%s.%s" % (show_term(t[1], d), t[2])
    if k == "index":
        return "%s[%s]" % (show_term(t[1], d), show_term(t[2], d))
    if k == "bin":
        return "(%s %s %s)" % (show_term(t[2], d), t[1], show_term(t[3], d))
    if k in ("not", "neg"):
        return ("!" if k == "not" else "-") + show_term(t[1], d)
    if k == "cast":
        return "%s as %s" % (show_term(t[1], d), t[2])
    if k == "from":
        return "From(%s)" % show_term(t[1], d)
    if k == "closure":
        return "<closure %s>" % t[1].split("::")[-1]
    if k == "iter_item":
        return "item(%s)" % show_term(t[1], d)
    return "(%s)" % " ".join(show_term(x, d) if isinstance(x, tuple) else str(x) for x in t)


def show_cond(c):
    k = c[0]
    if k == "is":
        return "%s %s %s" % (show_term(c[1]), "is" if c[3] else "is-not", c[2].split("::")[-1])
    if k == "true":
        return ("" if c[2] else "!") + show_term(c[1])
    if k == "eq":
        return "%s %s %s" % (show_term(c[1]), "==" if c[3] else "!=", show_term(c[2]))
    if k == "empty":
        return "%s %s []" % (show_term(c[1]), "==" if c[2] else "!=")
    return str(c[0]) + ":" + " ".join(show_term(x) if isinstance(x, tuple) else str(x) for x in c[1:])


def show_exit(x):
    effs = []
    for e in x.effects:
        if e[0] == "call":
            effs.append("%s(%s)" % (e[1].split("::")[-1], ", ".join(show_term(a) for a in e[2])))
        elif e[0] == "apply":
            effs.append("%s(%s)" % (show_term(e[1]), ", ".join(show_term(a) for a in e[2])))
        elif e[0] == "loop_head":
            effs.append("<head %s>" % e[1].split(":")[-1])
        elif e[0] == "await":
            effs.append(".await")
        elif e[0] == "store":
            effs.append("%s := %s" % (show_term(e[1]), show_term(e[2])))
    return "%s %s | if %s | do %s" % (x.kind, show_term(x.value) if x.value is not None else "",
                                      " ∧ ".join(show_cond(c) for c in x.conds), "; ".join(effs))
