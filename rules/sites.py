"""sites: the panic-edge universe of a crate, read from MIR (`mir_built`), and its mapping to HIR nodes.

Universe = every non-cleanup terminator that can start a panic:
  * Assert terminators (arithmetic overflow, bounds checks, division by zero ...),
  * calls whose callee (as written or as resolved) is #[track_caller] or is in the explicit
    may-panic table, minus the tabled total forwarders (they only forward to a closure or a
    From impl, whose bodies are part of the universe themselves),
  * calls into core::panicking.
Keys carry no line numbers: (function, kind, ordinal in source order within the function)."""
import hir

# #[track_caller] functions that cannot panic themselves: they forward to a closure / From::from / are pure
TOTAL_FORWARDERS = {
    "from_residual": "forwards the residual through From::from",
    "into": "forwards to From::from (local From impls are bodies of the universe)",
    "unwrap_or_else": "forwards to its closure",
    "map_or_else": "forwards to its closures",
    "unwrap_or_default": "forwards to Default::default",
    "ok_or_else": "forwards to its closure",
    "map_or": "forwards to its closure",
    "branch": "Try::branch is a pure case split",
    "new_display": "fmt argument constructor",
    "caller": "Location::caller",
}

MAY_PANIC_NAMES = {
    "index": "slice/array indexing panics when out of bounds",
    "index_mut": "slice/array indexing panics when out of bounds",
    "unwrap": "panics on Err/None",
    "expect": "panics on Err/None",
    "unwrap_err": "panics on Ok",
    "expect_err": "panics on Ok",
    "copy_within": "panics when the range or the destination is out of bounds",
    "copy_from_slice": "panics on length mismatch",
    "clone_from_slice": "panics on length mismatch",
    "split_at": "panics when mid > len",
    "split_at_mut": "panics when mid > len",
    "ilog10": "panics on zero",
    "ilog2": "panics on zero",
    "ilog": "panics on zero / bad base",
    "swap": "slice swap panics when out of bounds",
    "remove": "panics when out of bounds",
    "insert": "panics when out of bounds / full",
    "swap_remove": "panics when out of bounds",
    "truncate": None,
    "unreachable": "unreachable!()",
    "panic": "explicit panic",
    "panic_fmt": "explicit panic",
    "panic_display": "explicit panic",
    "assert_failed": "assert_eq!/assert_ne!",
    "unwrap_failed": "unwrap",
    "expect_failed": "expect",
    "from_utf8_unchecked": None,
    "rotate_left": "panics when mid > len",
    "rotate_right": "panics when k > len",
    "chunks": "panics on zero size",
    "windows": "panics on zero size",
    "step_by": "panics on zero step",
    "pow": "overflow in debug",
    "abs": "overflow in debug",
    "div_euclid": "division by zero",
    "rem_euclid": "division by zero",
}


class Site:
    def __init__(self, fn, kind, what, sp, exp, block):
        self.fn = fn
        self.kind = kind      # 'assert' | 'call'
        self.what = what      # assert kind or callee
        self.sp = tuple(sp)
        self.exp = exp
        self.block = block
        self.key = None
        self.hir = None

    def root(self):
        return self.fn.split("::{closure")[0]

    def loc(self):
        return "%s:%d" % (self.sp[0], self.sp[1])


def universe(crate, include=lambda d: True):
    sites = []
    for m in crate.facts["mir"]:
        if not include(m["def"]):
            continue
        for bi, b in enumerate(m["blocks"]):
            if b["cleanup"]:
                continue
            t = b["term"]
            if t["k"] == "Assert":
                a = t["assert"]
                if a.startswith("Resumed"):
                    continue
                sites.append(Site(m["def"], "assert", a, t["sp"], t.get("exp"), bi))
            elif t["k"] in ("Call", "TailCall") and t.get("callee"):
                cal = t.get("resolved") or t["callee"]
                name = hir.base_path(cal).split("::")[-1]
                raw = hir.base_path(t["callee"]).split("::")[-1]
                tc = t.get("track_caller") or t.get("resolved_track_caller")
                if name in TOTAL_FORWARDERS or raw in TOTAL_FORWARDERS:
                    continue
                panicky = tc or "core::panicking" in cal or (name in MAY_PANIC_NAMES and MAY_PANIC_NAMES[name]) or (raw in MAY_PANIC_NAMES and MAY_PANIC_NAMES[raw])
                if not panicky:
                    continue
                # a local callee is analysed as a body of its own; only its own edges count
                if t.get("resolved_local") or (t.get("callee_local") and not t.get("resolved")):
                    if not tc:
                        continue
                sites.append(Site(m["def"], "call", hir.base_path(cal), t.get("fn_sp") or t["sp"], t.get("exp"), bi))
    # keys: ordinal per (function, kind-name) in source order
    sites.sort(key=lambda s: (s.fn, s.sp[1], s.sp[2], s.kind, s.what))
    counters = {}
    for s in sites:
        nm = s.what.split("::")[-1] if s.kind == "call" else s.what
        k = (s.fn, s.kind, nm)
        counters[k] = counters.get(k, 0) + 1
        s.key = "%s:%s:%s#%d" % (s.fn, s.kind, nm, counters[k])
    return sites


class HirIndex:
    """span -> HIR nodes, per root function of a crate."""

    def __init__(self, crate):
        self.crate = crate
        self.by_root = {}

    def nodes(self, root):
        if root not in self.by_root:
            b = self.crate.body(root)
            d = {}
            pm = {}
            if b is not None:
                for x in hir.walk(b["value"]):
                    sp = tuple(x.get("sp") or ())
                    if sp:
                        d.setdefault(sp, []).append(x)
                    for c in hir.children(x):
                        pm[id(c)] = x
            self.by_root[root] = (d, pm)
        return self.by_root[root]

    def find(self, site):
        """The HIR node a site belongs to (same span, matching construct) or None."""
        d, pm = self.nodes(site.root())
        cands = d.get(site.sp, [])
        want = None
        if site.kind == "assert":
            if site.what.startswith("Overflow") or site.what in ("DivisionByZero", "RemainderByZero"):
                want = lambda x: x.get("k") in ("Binary", "AssignOp", "Unary")
            elif site.what == "BoundsCheck":
                want = lambda x: x.get("k") == "Index"
        else:
            nm = site.what.split("::")[-1]
            if nm in ("index", "index_mut"):
                want = lambda x: x.get("k") == "Index"
            else:
                want = lambda x: x.get("k") in ("MethodCall", "Call") and (hir.base_path(x.get("resolved") or x.get("callee") or "").split("::")[-1] == nm or x.get("name") == nm)
        if want is None:
            return None
        for x in cands:
            if want(x):
                return x
        # MIR spans of calls sometimes cover only the method name + args: fall back to containment on the same line
        if site.kind == "call":
            for sp, xs in d.items():
                if sp[0] == site.sp[0] and sp[1] <= site.sp[1] and sp[3] >= site.sp[3] and (sp[1], sp[2]) <= (site.sp[1], site.sp[2]) and (sp[3], sp[4]) >= (site.sp[3], site.sp[4]):
                    for x in xs:
                        if want(x) and (tuple(x.get("sp"))[3:] == site.sp[3:]):
                            return x
        return None

    def parent(self, site_root, node):
        d, pm = self.nodes(site_root)
        return pm.get(id(node))
