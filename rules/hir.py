"""Helpers over the re-sugared HIR facts: traversal, pretty printing, lookup."""


def children(e):
    """Yield the direct sub-expressions (and blocks) of an expression node."""
    if not isinstance(e, dict):
        return
    k = e.get("k")
    if k == "Block":
        for s in e["stmts"]:
            if s["k"] == "Let":
                if "init" in s:
                    yield s["init"]
                if "els" in s:
                    yield s["els"]
            else:
                yield s["e"]
        if e.get("expr"):
            yield e["expr"]
        return
    for key in ("f", "recv", "e", "l", "r", "cond", "then", "else", "scrut", "init", "iter", "body", "base", "i"):
        v = e.get(key)
        if isinstance(v, dict) and "k" in v:
            yield v
    for key in ("args", "es"):
        for v in e.get(key, []) or []:
            yield v
    if k == "Match":
        for a in e["arms"]:
            if a.get("guard"):
                yield a["guard"]
            yield a["body"]
    if k == "Struct":
        for f in e["fields"]:
            yield f["e"]


def walk(e):
    """Pre-order walk over all expression nodes including closure bodies."""
    stack = [e]
    while stack:
        x = stack.pop()
        if not isinstance(x, dict):
            continue
        yield x
        cs = list(children(x))
        stack.extend(reversed(cs))


def loc(e):
    sp = e.get("sp")
    if not sp:
        return "?"
    return "%s:%d" % (sp[0], sp[1])


def strip(e):
    """Strip reference/deref/paren-like wrappers that do not change the denoted value."""
    while isinstance(e, dict):
        k = e.get("k")
        if k == "AddrOf":
            e = e["e"]
        elif k == "Unary" and e.get("op") == "Deref" and "callee" not in e:
            e = e["e"]
        elif k == "Block" and not e["stmts"] and e.get("expr"):
            e = e["expr"]
        else:
            break
    return e


def callee(e):
    """Resolved callee def-path of a Call/MethodCall (None otherwise)."""
    if e.get("k") in ("Call", "MethodCall"):
        return e.get("callee")
    return None


def base_path(p):
    """Def path with generic argument lists removed: a::B::<T>::c -> a::B::c
    (inherent impls of the numeric primitives keep their type: core::num::<impl u8>::f -> core::num::u8::f)"""
    if p is None:
        return None
    if p.startswith("core::num::<impl ") and ">::" in p:
        t, rest = p[len("core::num::<impl "):].split(">::", 1)
        if t.isidentifier():
            p = "core::num::%s::%s" % (t, rest)
    out = []
    depth = 0
    i = 0
    while i < len(p):
        c = p[i]
        if c == "<":
            if depth == 0 and out[-2:] == [":", ":"]:
                out = out[:-2]
                depth += 1
                i += 1
                continue
            if depth > 0:
                depth += 1
                i += 1
                continue
            # leading `<T as Trait>::x` form: keep
            out.append(c)
        elif c == ">" and depth > 0:
            depth -= 1
        elif depth == 0:
            out.append(c)
        i += 1
    return "".join(out)


def local_id(e):
    e = strip(e)
    if isinstance(e, dict) and e.get("k") == "Path" and e["res"].get("r") == "Local":
        return e["res"]["id"]
    return None


def is_path_to(e, path):
    e = strip(e)
    return isinstance(e, dict) and e.get("k") == "Path" and e["res"].get("r") == "Def" and e["res"].get("path") == path


def show_pat(p):
    k = p["k"]
    if k == "Wild":
        return "_"
    if k == "Bind":
        s = p["name"]
        if "sub" in p:
            s += "@" + show_pat(p["sub"])
        return s
    if k == "TupleStruct":
        return "%s(%s)" % (short(p["res"].get("path", "?")), ", ".join(show_pat(x) for x in p["pats"]))
    if k == "Struct":
        return "%s{%s}" % (short(p["res"].get("path", "?")), ", ".join(f["name"] + ":" + show_pat(f["pat"]) for f in p["fields"]))
    if k == "Tuple":
        return "(%s)" % ", ".join(show_pat(x) for x in p["pats"])
    if k == "Or":
        return " | ".join(show_pat(x) for x in p["pats"])
    if k in ("Ref", "Deref", "Box"):
        return "&" + show_pat(p["pat"])
    if k == "Lit":
        return repr(p["lit"].get("v"))
    if k == "PathPat":
        return short(p["res"].get("path", "?"))
    if k == "Range":
        return "%s..%s%s" % (show_pat(p["lo"]) if p["lo"] else "", "=" if p["incl"] else "", show_pat(p["hi"]) if p["hi"] else "")
    if k == "Slice":
        parts = [show_pat(x) for x in p["before"]]
        if p["slice"]:
            parts.append(".." )
        parts += [show_pat(x) for x in p["after"]]
        return "[%s]" % ", ".join(parts)
    return k


def short(path):
    return path.split("::")[-1] if path else "?"


def show(e, depth=0):
    """Compact single-line rendering, for diagnostics and evidence samples."""
    if e is None:
        return "-"
    if depth > 12:
        return "…"
    k = e.get("k")
    d = depth + 1
    if k == "Lit":
        v = e["lit"].get("v")
        t = e["lit"]["t"]
        if t == "byte":
            return "b%r" % chr(v)
        if t == "char":
            return repr(chr(v))
        return repr(v)
    if k == "Path":
        r = e["res"]
        return r.get("name") or short(r.get("path", "?"))
    if k == "Call":
        return "%s(%s)" % (short(e.get("callee")) if e.get("callee") else show(e["f"], d), ", ".join(show(a, d) for a in e["args"]))
    if k == "MethodCall":
        return "%s.%s(%s)" % (show(e["recv"], d), e["name"], ", ".join(show(a, d) for a in e["args"]))
    if k == "Try":
        return show(e["e"], d) + "?"
    if k == "Await":
        return show(e["e"], d) + ".await"
    if k == "Field":
        return show(e["e"], d) + "." + e["name"]
    if k == "Index":
        return "%s[%s]" % (show(e["e"], d), show(e["i"], d))
    if k == "AddrOf":
        return ("&mut " if e["mut"] else "&") + show(e["e"], d)
    if k == "Unary":
        return {"Deref": "*", "Not": "!", "Neg": "-"}.get(e["op"], e["op"]) + show(e["e"], d)
    if k == "Binary":
        return "(%s %s %s)" % (show(e["l"], d), e["op"], show(e["r"], d))
    if k == "Assign":
        return "%s = %s" % (show(e["l"], d), show(e["r"], d))
    if k == "AssignOp":
        return "%s %s= %s" % (show(e["l"], d), e["op"], show(e["r"], d))
    if k == "Tup":
        return "(%s)" % ", ".join(show(a, d) for a in e["es"])
    if k == "Array":
        return "[%s]" % ", ".join(show(a, d) for a in e["es"])
    if k == "Struct":
        s = "%s{%s" % (short(e["res"].get("path")), ", ".join("%s: %s" % (f["name"], show(f["e"], d)) for f in e["fields"]))
        if "base" in e:
            s += ", .." + show(e["base"], d)
        return s + "}"
    if k == "Block":
        parts = []
        for s in e["stmts"]:
            if s["k"] == "Let":
                parts.append("let %s = %s" % (show_pat(s["pat"]), show(s.get("init"), d)))
            else:
                parts.append(show(s["e"], d))
        if e.get("expr"):
            parts.append(show(e["expr"], d))
        return "{ %s }" % "; ".join(parts)
    if k == "If":
        s = "if %s %s" % (show(e["cond"], d), show(e["then"], d))
        if e.get("else"):
            s += " else " + show(e["else"], d)
        return s
    if k == "LetCond":
        return "let %s = %s" % (show_pat(e["pat"]), show(e["init"], d))
    if k == "Match":
        return "match %s { %s }" % (show(e["scrut"], d), ", ".join(
            "%s%s => %s" % (show_pat(a["pat"]), (" if " + show(a["guard"], d)) if a.get("guard") else "", show(a["body"], d)) for a in e["arms"]))
    if k == "Loop":
        return "loop " + show(e["body"], d)
    if k == "While":
        return "while %s %s" % (show(e["cond"], d), show(e["body"], d))
    if k == "For":
        return "for %s in %s %s" % (show_pat(e["pat"]), show(e["iter"], d), show(e["body"], d))
    if k == "Closure":
        return "|%s| %s" % (", ".join(show_pat(p) for p in e["params"]), show(e["body"], d))
    if k == "Ret":
        return "return " + show(e.get("e"), d)
    if k == "Break":
        return "break" + ((" " + show(e["e"], d)) if e.get("e") else "")
    if k == "Continue":
        return "continue"
    if k == "Cast":
        return "%s as %s" % (show(e["e"], d), e["ty"])
    if k == "Repeat":
        return "[%s; _]" % show(e["e"], d)
    return k or "?"


class Crate:
    def __init__(self, facts):
        self.facts = facts
        self.name = facts["crate"]
        self.bodies = {b["def"]: b for b in facts["bodies"]}
        self.mir = {m["def"]: m for m in facts["mir"]}

    def body(self, path):
        return self.bodies.get(path)

    def fn_value(self, path):
        """The expression tree of a function body; for `async fn` the inner coroutine body."""
        b = self.bodies.get(path)
        if b is None:
            return None
        return async_inner(b["value"])

    def find_bodies(self, pred):
        return [b for b in self.facts["bodies"] if pred(b)]


def async_inner(v):
    """`async fn` bodies are `|task_ctx| { let params..; { body } }`: return the user body."""
    x = v
    if x.get("k") == "Block" and not x["stmts"] and x.get("expr") and x["expr"].get("k") == "Closure":
        x = x["expr"]
    if x.get("k") == "Closure" and "Coroutine" in x.get("ckind", ""):
        b = x["body"]
        if b.get("k") == "Block" and b.get("expr") is not None:
            return b["expr"]
        return b
    return v


def async_full(v):
    """For `async fn`: the whole coroutine body including the `let param = param;` prologue
    (so that inner bindings resolve to the outer parameters); otherwise v itself."""
    x = v
    if x.get("k") == "Block" and not x["stmts"] and x.get("expr") and x["expr"].get("k") == "Closure":
        x = x["expr"]
    if x.get("k") == "Closure" and "Coroutine" in x.get("ckind", ""):
        return x["body"]
    return v
