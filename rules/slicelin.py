"""slicelin: linear facts about slice lengths on a path of a parser function, for Fourier-Motzkin entailment."""
import fm
import pathsum
from linform import Lin, lin
from pathsum import OK, SOME, strip_sites
from skeleton import P

LEN = "core::slice::len"


def S(t):
    return strip_sites(t)


def rng_parts(r):
    """range term -> (kind, start, end)"""
    if r[0] == "struct":
        f = dict(r[2])
        n = r[1].split("::")[-1]
        return n, f.get("start"), f.get("end")
    if r[0] == "call" and r[1].endswith("RangeInclusive::new"):
        return "RangeInclusive", r[2][0], r[2][1]
    return None, None, None


ITER_SHRINKERS = ("take_while", "skip_while", "filter", "skip", "take", "rev", "copied", "cloned", "map_while", "step_by", "peekable", "enumerate")


def prefix_taker(sk, pid):
    """Does the parser return, as its value, exactly the prefix of its input that it consumed
    (len(value) + len(remainder) = len(input))?  True for take_while by its contract (rule PR); for a direct parser it is
    proved on every accepting path: the value is input[..e] / input[0..e] / input.split_at(e).0 with
    e = len(input) - len(remainder) entailed by the slice-length facts of the path."""
    if not pid:
        return False
    if pid[0] == "take_while":
        return True
    if pid[0] != "fn":
        return False
    key = ("prefix_taker", pid)
    if key in sk.memo:
        return sk.memo[key]
    sk.memo[key] = False          # recursion guard
    f = sk.fns.get(pid[1])
    ok = False
    if f is not None and f.get("inp") is not None:
        inp = f["inp"]
        sl = SliceLin(sk, f["ps"], inp)
        n = 0
        ok = True
        for x in f["exits"]:
            r = sk.exit_result(x)
            if not (r and r[0][0] == "ok"):
                continue
            n += 1
            val, rem = S(sk.val_of(r[0][1])), S(sk.rem_of(r[0][1]))
            e = None
            if val[0] == "index" and val[1] == inp:
                k, a, b = rng_parts(val[2])
                if k == "RangeTo" or (k == "Range" and a == ("lit", "int", 0)):
                    e = b
            elif val[0] == "tproj" and val[2] == 0 and val[1][0] == "call" and val[1][1].endswith("::split_at") and len(val[1][2]) == 2 and val[1][2][0] == inp:
                e = val[1][2][1]
            if e is None:
                ok = False
                break
            facts = sl.premises(x) + sl.cond_facts(x) + sl.slice_facts(rem, x) + [fm.ge0(sl.ln(rem))]
            if not all(fm.entails(facts, g) for g in fm.eq(sl.L(e) + sl.ln(rem), sl.ln(inp))):
                ok = False
                break
        ok = ok and n > 0
    sk.memo[key] = ok
    return ok


class SliceLin:
    """Fallback for the arithmetic, slicing and split_at sites of parser functions that the shape rules L1-L6 do not match
    (a bound kept in a local, a count taken with an iterator adaptor ...): the obligation is proved by Fourier-Motzkin
    entailment from the path condition and these premises, instantiated for the terms on the path:
      0 <= len(X) <= H (= isize::MAX, so that 2H+1 = usize::MAX);   len(remainder of p(src)) <= len(src), with equality
      len+1 = len(src) for the one-byte consumers satisfy/tag and len+1 <= len(src) for strict parsers;
      len(taken) + len(remainder) = len(src) for the prefix takers;   len(X) <= len(input) when X is suffix-derived;
      len(b.split_at(m).0) = m, len(b.split_at(m).1) = len(b) - m;   0 <= it.count() <= len(s) for iterator chains over s;
      0 <= position < len(s)."""

    def __init__(self, sk, ps, inp):
        self.sk, self.ps, self.inp = sk, ps, inp

    def L(self, t):
        return lin(S(t))

    def ln(self, x):
        return self.L(("call", LEN, (x,), None))

    def iter_source(self, t):
        """it = adaptor*(iter(S)) -> S"""
        hops = 0
        while t[0] == "call" and hops < 8:
            nm = t[1].split("::")[-1]
            if nm == "iter" and len(t[2]) == 1:
                return t[2][0]
            if nm in ITER_SHRINKERS and t[2]:
                t = t[2][0]
                hops += 1
                continue
            return None
        return None

    def premises(self, x):
        H = Lin({"H": 1})
        f = [fm.ge0(H)]
        if self.inp is not None:
            f += [fm.ge0(self.ln(self.inp)), fm.le(self.ln(self.inp), H)]
        seen = set()
        terms = [c[1] for c in x.conds]
        for e in x.effects:
            for a in e[1:]:
                if isinstance(a, tuple):
                    terms.append(a)
        if getattr(x, "value", None) is not None:
            terms.append(x.value)
        for v in x.env.values():
            terms.append(v)
        todo = []
        for t in terms:
            for s_ in pathsum.subterms(t):
                if isinstance(s_, tuple) and s_ and isinstance(s_[0], str):
                    todo.append(S(s_))
        for s_ in todo:
            if s_ in seen:
                continue
            seen.add(s_)
            if s_[0] == "call" and s_[1] == LEN and len(s_[2]) == 1:
                X = s_[2][0]
                lx = self.ln(X)
                f.append(fm.ge0(lx))
                f.append(fm.le(lx, H))
                f += self.slice_facts(X, x)
            if s_[0] == "tproj" and s_[2] == 1 and s_[1][0] == "payload" and s_[1][2] == OK:
                # the byte a one-byte recogniser returns lies within its class
                a = self.sk.app(s_[1][1], self.ps)
                if a is not None and a[0][0] in ("satisfy", "tag"):
                    cls = a[0][1] if a[0][0] == "satisfy" else (frozenset([a[0][1]]) if a[0][1] is not None else None)
                    if cls:
                        f += [fm.ge0(self.L(s_) - Lin({}, min(cls))), fm.ge0(Lin({}, max(cls)) - self.L(s_))]
            if s_[0] == "call" and s_[1].endswith("::count") and len(s_[2]) == 1:
                src = self.iter_source(s_[2][0])
                f.append(fm.ge0(self.L(s_)))
                if src is not None:
                    f.append(fm.le(self.L(s_), self.ln(src)))
                    f += [fm.ge0(self.ln(src)), fm.le(self.ln(src), H)] + self.slice_facts(S(src), x)
            if s_[0] == "payload" and s_[2] == SOME and s_[1][0] == "call" and s_[1][1].endswith("::position"):
                src = self.iter_source(s_[1][2][0])
                f.append(fm.ge0(self.L(s_)))
                if src is not None:
                    f.append(fm.lt(self.L(s_), self.ln(src)))
                    f += [fm.le(self.ln(src), H)] + self.slice_facts(S(src), x)
        return f

    def slice_facts(self, X, x, depth=0):
        f = []
        if depth > 6:
            return f
        H = Lin({"H": 1})
        lx = self.ln(X)
        if X[0] == "tproj" and X[1][0] == "payload" and X[1][2] == OK:
            a = self.sk.app(X[1][1], self.ps)
            if a is not None:
                pid, src = a
                ls = self.ln(src)
                f += [fm.ge0(ls), fm.le(ls, H)]
                rem = ("tproj", X[1], 0)
                if X[2] == 0:
                    if pid[0] in ("satisfy", "tag"):
                        f += fm.eq(lx + Lin({}, 1), ls)
                    elif pid[0] != "param" and self.sk.attr(pid).get("strict") and pid[0] != "optional":
                        f.append(fm.le(lx + Lin({}, 1), ls))
                    else:
                        f.append(fm.le(lx, ls))
                elif X[2] == 1 and prefix_taker(self.sk, pid):
                    f += fm.eq(lx + self.ln(rem), ls)
                    f += [fm.ge0(self.ln(rem))]
                    f += self.slice_facts(rem, x, depth + 1)
                f += self.slice_facts(src, x, depth + 1)
        if X[0] == "tproj" and X[1][0] == "call" and X[1][1].endswith("::split_at") and len(X[1][2]) == 2:
            b, m = X[1][2]
            f += fm.eq(lx, self.L(m)) if X[2] == 0 else fm.eq(lx, self.ln(b) - self.L(m))
            f += [fm.ge0(self.ln(b)), fm.le(self.ln(b), H)]
            f += self.slice_facts(b, x, depth + 1)
        if X[0] == "tproj" and X[2] == 1 and X[1][0] == "payload" and X[1][2] == SOME and X[1][1][0] == "call" and X[1][1][1].endswith("::split_first") and len(X[1][1][2]) == 1:
            b = X[1][1][2][0]
            f += fm.eq(lx + Lin({}, 1), self.ln(b)) + [fm.le(self.ln(b), H)]
            f += self.slice_facts(b, x, depth + 1)
        if X[0] == "index":
            f += [fm.ge0(self.ln(X[1])), fm.le(self.ln(X[1]), H)]
            f += self.slice_facts(X[1], x, depth + 1)
        if X != self.inp and self.inp is not None and X[0] in ("loopvar", "tproj"):
            try:
                ch = self.sk.chain(X, self.inp, x, self.ps)
            except Exception:
                ch = None
            if ch is not None:
                f.append(fm.le(lx, self.ln(self.inp)))
                f.append(fm.le(self.ln(self.inp), H))
        return f

    def cond_facts(self, x):
        f = []
        for c in x.conds:
            if c[0] != "true" or c[1][0] != "bin":
                if c[0] == "true" and c[1][0] == "call" and c[1][1].endswith("::is_empty"):
                    ln_ = self.ln(c[1][2][0])
                    f += fm.eq(ln_, Lin()) if c[2] else [fm.ge0(ln_ - Lin({}, 1))]
                if c[0] == "is" and c[2] == SOME and pathsum.is_slice_get(c[1]):
                    # s.get(range) is Some exactly when the range is ordered and within bounds
                    k, a, b = rng_parts(c[1][2][1])
                    n = self.ln(c[1][2][0])
                    if c[3]:
                        if k == "RangeTo":
                            f += [fm.le(self.L(b), n)]
                        elif k == "RangeFrom":
                            f += [fm.le(self.L(a), n)]
                        elif k == "Range":
                            f += [fm.le(self.L(a), self.L(b)), fm.le(self.L(b), n)]
                        elif k == "RangeInclusive":
                            f += [fm.le(self.L(a), self.L(b) + Lin({}, 1)), fm.lt(self.L(b), n)]
                    else:
                        if k == "RangeTo":
                            f += [fm.lt(n, self.L(b))]
                        elif k == "RangeFrom":
                            f += [fm.lt(n, self.L(a))]
                if c[0] == "is" and c[2] == SOME and c[1][0] == "call" and c[1][1].split("::")[-1] in ("first", "last", "split_first", "split_last") and len(c[1][2]) == 1:
                    ln_ = self.ln(c[1][2][0])
                    f += [fm.ge0(ln_ - Lin({}, 1))] if c[3] else fm.eq(ln_, Lin())
                continue
            op, a, b = c[1][1], self.L(c[1][2]), self.L(c[1][3])
            v = c[2]
            if op in ("Lt", "Ge"):
                f.append(fm.lt(a, b) if (op == "Lt") == v else fm.le(b, a))
            elif op in ("Gt", "Le"):
                f.append(fm.lt(b, a) if (op == "Gt") == v else fm.le(a, b))
            elif op in ("Eq", "Ne"):
                if (op == "Eq") == v:
                    f += fm.eq(a, b)
        return f

    def goals(self, e):
        """Obligations of one effect. Bounds and operands are values of unsigned types, so `>= 0` is no obligation (a
        difference that could be negative is an obligation of its own subtraction site)."""
        H = Lin({"H": 1})
        if e[0] == "index":
            k, a, b = rng_parts(e[2])
            n = self.ln(e[1])
            if k is None and e[2][0] not in ("struct",) and not (e[2][0] == "call" and "Range" in e[2][1]):
                return [fm.lt(self.L(e[2]), n)]      # s[i]: i < len
            if k == "RangeFrom":
                return [fm.le(self.L(a), n)]
            if k == "RangeTo":
                return [fm.le(self.L(b), n)]
            if k == "Range":
                return [fm.le(self.L(a), self.L(b)), fm.le(self.L(b), n)]
            if k == "RangeInclusive":
                return [fm.le(self.L(a), self.L(b) + Lin({}, 1)), fm.lt(self.L(b), n)]
            if k == "RangeFull":
                return []
            return None
        if e[0] == "arith":
            a, b = self.L(e[2]), self.L(e[3])
            if e[1] == "Add":
                return [fm.le(a + b, H + H + Lin({}, 1))]
            if e[1] == "Sub":
                return [fm.ge0(a - b)]
            return None
        if e[0] == "call" and e[1].split("::")[-1] in ("split_at", "split_at_mut") and len(e[2]) == 2:
            return [fm.le(self.L(e[2][1]), self.ln(e[2][0]))]
        return None

    def loop_invariants(self, exits):
        """Houdini over the candidates `v <= len(input)` for every loop-carried local v of every loop of the function:
        kept when established at every entry of the loop and preserved on every back-edge (given the kept candidates at
        the head). -> {loop site: [constraint, ...]}"""
        if getattr(self, "_inv", None) is not None:
            return self._inv
        self._inv = {}
        if self.inp is None:
            return self._inv
        cand = {}
        for site, info in self.ps.loops.items():
            for lid, name in info["vars"].items():
                cand[(site, lid)] = ("loopvar", lid, name, site)
        n = self.ln(self.inp)
        changed = True
        rounds = 0
        while changed and rounds < 10:
            changed = False
            rounds += 1
            cur = {}
            for (site, lid), v in cand.items():
                cur.setdefault(site, []).append(fm.le(self.L(v), n))
            self._inv = cur
            for (site, lid), v in list(cand.items()):
                info = self.ps.loops[site]
                ok = bool(info["entry"])
                for st in info["entry"]:
                    t = st.env.get(lid)
                    fake = pathsum.Exit("entry", st, None)
                    if t is None or not fm.entails(self.facts(fake), fm.le(self.L(t), n)):
                        ok = False
                for x in exits:
                    if x.kind == "backedge" and x.extra == site:
                        t = x.env.get(lid)
                        if t is None or not fm.entails(self.facts(x), fm.le(self.L(t), n)):
                            ok = False
                if not ok:
                    del cand[(site, lid)]
                    changed = True
        cur = {}
        for (site, lid), v in cand.items():
            cur.setdefault(site, []).append(fm.le(self.L(v), n))
        self._inv = cur
        return self._inv

    def facts(self, x):
        f = self.premises(x) + self.cond_facts(x)
        inv = getattr(self, "_inv", None) or {}
        for e in x.effects:
            if e[0] == "loop_head":
                f += inv.get(e[1], [])
        return f

    def prove(self, x, e):
        g = self.goals(e)
        if g is None:
            return False
        f = self.facts(x)
        return all(fm.entails(f, q) for q in g)


