"""linform: linear normal forms  sum(c_i * atom_i) + c  of integer terms (usize offsets, slice lengths)."""
from pathsum import strip_sites


class Lin:
    def __init__(self, coeffs=None, const=0):
        self.coeffs = {k: v for k, v in (coeffs or {}).items() if v != 0}
        self.const = const

    def __add__(self, o):
        c = dict(self.coeffs)
        for k, v in o.coeffs.items():
            c[k] = c.get(k, 0) + v
        return Lin(c, self.const + o.const)

    def __sub__(self, o):
        c = dict(self.coeffs)
        for k, v in o.coeffs.items():
            c[k] = c.get(k, 0) - v
        return Lin(c, self.const - o.const)

    def __eq__(self, o):
        return isinstance(o, Lin) and self.coeffs == o.coeffs and self.const == o.const

    def is_const(self):
        return not self.coeffs

    def subst(self, atom, lin):
        if atom not in self.coeffs:
            return self
        c = dict(self.coeffs)
        k = c.pop(atom)
        r = Lin(c, self.const)
        for _ in range(abs(k)):
            r = r + lin if k > 0 else r - lin
        return r

    def __repr__(self):
        from pathsum import show_term
        parts = []
        for k, v in sorted(self.coeffs.items(), key=lambda kv: repr(kv[0])):
            parts.append(("%+d*" % v if v not in (1, -1) else ("+" if v == 1 else "-")) + show_term(k))
        if self.const or not parts:
            parts.append("%+d" % self.const)
        return " ".join(parts)


def atom(t):
    return Lin({strip_sites(t): 1})


def lin(t):
    """Linear form of an integer-valued term."""
    k = t[0]
    if k == "lit" and isinstance(t[2], int) and not isinstance(t[2], bool):
        return Lin({}, t[2])
    if k == "bin" and t[1] in ("Add", "Sub"):
        a, b = lin(t[2]), lin(t[3])
        return a + b if t[1] == "Add" else a - b
    if k == "cast" and len(t) == 4 and t[3] == "exact":
        return lin(t[1])
    if k == "call" and t[1].endswith("::len") and len(t[2]) == 1:
        x = t[2][0]
        if x[0] == "index":
            base, r = x[1], x[2]
            if r[0] == "call" and r[1].endswith("RangeInclusive::new") and len(r[2]) == 2:
                return lin(r[2][1]) - lin(r[2][0]) + Lin({}, 1)
            if r[0] == "struct":
                f = dict(r[2])
                if r[1].endswith("::Range"):
                    return lin(f["end"]) - lin(f["start"])
                if r[1].endswith("RangeInclusive"):
                    return lin(f["end"]) - lin(f["start"]) + Lin({}, 1)
                if r[1].endswith("RangeFrom"):
                    return lin(("call", t[1], (base,), None)) - lin(f["start"])
                if r[1].endswith("RangeTo"):
                    return lin(f["end"])
                if r[1].endswith("RangeFull"):
                    return lin(("call", t[1], (base,), None))
    return atom(t)
