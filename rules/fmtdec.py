"""Decoding of core::fmt::Arguments templates (this toolchain lowers format_args! to
`Arguments::new(b"<byte-coded template>", &[Argument::new_display(&x), ...])`)."""


def decode(term):
    """term: ('call', 'core::fmt::Arguments::new', (('lit','bytestr',bytes), args_array), site)
    -> list of ('lit', bytes) | ('arg', index, trait, arg_term, options) ; None if not such a term."""
    if not (isinstance(term, tuple) and term and term[0] == "call" and term[1].endswith("fmt::Arguments::new") and len(term[2]) == 2):
        if isinstance(term, tuple) and term and term[0] == "call" and term[1].endswith("fmt::Arguments::from_str") and term[2] and term[2][0][0] == "lit":
            return [("lit", term[2][0][2].encode() if isinstance(term[2][0][2], str) else bytes(term[2][0][2]))]
        return None
    tpl, arr = term[2]
    if tpl[0] != "lit" or tpl[1] != "bytestr":
        return None
    b = bytes(tpl[2])
    args = arr[1] if arr[0] == "array" else ()
    out = []
    i = 0
    nxt = 0
    while i < len(b):
        n = b[i]
        i += 1
        if n == 0:
            break
        if n < 0x80:
            out.append(("lit", b[i:i + n]))
            i += n
        elif n == 0x80:
            ln = int.from_bytes(b[i:i + 2], "little")
            i += 2
            out.append(("lit", b[i:i + ln]))
            i += ln
        else:
            opts = {}
            if n & 1:
                opts["flags"] = int.from_bytes(b[i:i + 4], "little")
                i += 4
            if n & 2:
                opts["width"] = int.from_bytes(b[i:i + 2], "little")
                i += 2
            if n & 4:
                opts["precision"] = int.from_bytes(b[i:i + 2], "little")
                i += 2
            idx = nxt
            if n & 8:
                idx = int.from_bytes(b[i:i + 2], "little")
                i += 2
            if n & 16:
                opts["width_indirect"] = True
            if n & 32:
                opts["precision_indirect"] = True
            a = args[idx] if idx < len(args) else None
            trait = None
            at = None
            if a is not None and a[0] == "call":
                trait = a[1].split("::")[-1].replace("new_", "")
                at = a[2][0] if a[2] else None
            out.append(("arg", idx, trait, at, opts))
            nxt = idx + 1
    return out
