"""bytecls: denotation of byte predicates (u8 -> bool) as 256-element sets.

The predicate's syntax tree is evaluated over the finite domain 0..=255 by a small
interpreter for the closed sub-language {literals, ranges, comparisons, && || !, patterns
(matches!), Range::contains, u8::is_ascii_* (by table), captured constants}.  Anything
outside the sub-language makes the class "not computable" (None)."""
import hir


class NotComputable(Exception):
    pass


ASCII_TABLE = {
    "is_ascii_digit": lambda b: 48 <= b <= 57,
    "is_ascii_alphabetic": lambda b: 65 <= b <= 90 or 97 <= b <= 122,
    "is_ascii_alphanumeric": lambda b: 48 <= b <= 57 or 65 <= b <= 90 or 97 <= b <= 122,
    "is_ascii_hexdigit": lambda b: 48 <= b <= 57 or 65 <= b <= 70 or 97 <= b <= 102,
    "is_ascii_uppercase": lambda b: 65 <= b <= 90,
    "is_ascii_lowercase": lambda b: 97 <= b <= 122,
    "is_ascii_whitespace": lambda b: b in (9, 10, 12, 13, 32),
    "is_ascii_punctuation": lambda b: 33 <= b <= 47 or 58 <= b <= 64 or 91 <= b <= 96 or 123 <= b <= 126,
    "is_ascii_graphic": lambda b: 33 <= b <= 126,
    "is_ascii_control": lambda b: b <= 31 or b == 127,
    "is_ascii": lambda b: b <= 127,
    "is_ascii_octdigit": lambda b: 48 <= b <= 55,
    # char methods, restricted to the ASCII domain (where they coincide with the is_ascii_* tables)
    "is_lowercase": lambda b: 97 <= b <= 122,
    "is_uppercase": lambda b: 65 <= b <= 90,
    "is_alphabetic": lambda b: 65 <= b <= 90 or 97 <= b <= 122,
    "is_numeric": lambda b: 48 <= b <= 57,
    "is_alphanumeric": lambda b: 48 <= b <= 57 or 65 <= b <= 90 or 97 <= b <= 122,
}


class Ev:
    def __init__(self, crate=None, captured=None):
        self.crate = crate
        self.captured = captured or {}   # local id or name -> int

    def bind(self, pat, v, env):
        k = pat["k"]
        if k == "Bind":
            env[pat["id"]] = v
            if "sub" in pat:
                self.bind(pat["sub"], v, env)
        elif k in ("Ref", "Deref"):
            self.bind(pat["pat"], v, env)
        elif k == "Wild":
            pass
        else:
            raise NotComputable("param pattern " + k)

    def matches(self, pat, v, env):
        k = pat["k"]
        if k == "Wild":
            return True
        if k == "Bind":
            env[pat["id"]] = v
            return self.matches(pat["sub"], v, env) if "sub" in pat else True
        if k in ("Ref", "Deref"):
            return self.matches(pat["pat"], v, env)
        if k == "Lit":
            return v == self.litv(pat["lit"])
        if k == "Or":
            return any(self.matches(p, v, env) for p in pat["pats"])
        if k == "Range":
            lo = self.litv(pat["lo"]["lit"]) if pat["lo"] else 0
            hi = self.litv(pat["hi"]["lit"]) if pat["hi"] else 255
            return lo <= v <= hi if pat["incl"] else lo <= v < hi
        raise NotComputable("pattern " + k)

    def litv(self, lit):
        if lit["t"] in ("byte", "int", "char"):
            return lit["v"]
        if lit["t"] == "bool":
            return lit["v"]
        raise NotComputable("literal " + lit["t"])

    def ev(self, e, env):
        k = e["k"]
        if k == "Lit":
            return self.litv(e["lit"])
        if k == "Path":
            r = e["res"]
            if r["r"] == "Local":
                if r["id"] in env:
                    return env[r["id"]]
                if r["id"] in self.captured:
                    return self.captured[r["id"]]
                if r["name"] in self.captured:
                    return self.captured[r["name"]]
                raise NotComputable("free variable " + r["name"])
            if "value" in r:
                return r["value"]
            # a constant item of the analysed crate: its body is evaluated
            b = self.crate.body(r.get("path")) if self.crate is not None and r.get("path") else None
            if b is not None and str(b.get("kind", "")).startswith(("Const", "AssocConst")):
                return self.ev(b["value"], {})
            raise NotComputable("path " + str(r.get("path")))
        if k in ("AddrOf",):
            return self.ev(e["e"], env)
        if k == "Unary":
            v = self.ev(e["e"], env)
            if e["op"] == "Deref":
                return v
            if e["op"] == "Not":
                if isinstance(v, bool):
                    return not v
                return (~v) & 0xFF
            raise NotComputable("unary " + e["op"])
        if k == "Cast":
            return self.ev(e["e"], env)
        if k == "Binary":
            op = e["op"]
            if op == "And":
                return self.ev(e["l"], env) and self.ev(e["r"], env)
            if op == "Or":
                return self.ev(e["l"], env) or self.ev(e["r"], env)
            l, r = self.ev(e["l"], env), self.ev(e["r"], env)
            if isinstance(l, tuple) or isinstance(r, tuple):
                raise NotComputable("binary on range")
            tbl = {"Eq": l == r, "Ne": l != r, "Lt": l < r, "Le": l <= r, "Gt": l > r, "Ge": l >= r}
            if op in tbl:
                return tbl[op]
            if op == "BitAnd":
                return l & r
            if op == "BitOr":
                return l | r
            if op == "BitXor":
                return l ^ r
            if op == "Sub":
                return l - r
            if op == "Add":
                return l + r
            raise NotComputable("binary " + op)
        if k == "Block":
            env = dict(env)
            for s in e["stmts"]:
                if s["k"] == "Let" and "init" in s:
                    self.bind(s["pat"], self.ev(s["init"], env), env)
                elif s["k"] in ("Expr", "Semi"):
                    self.ev(s["e"], env)
            if e.get("expr"):
                return self.ev(e["expr"], env)
            raise NotComputable("block without value")
        if k == "If":
            c = self.ev(e["cond"], env)
            if c:
                return self.ev(e["then"], env)
            if e.get("else"):
                return self.ev(e["else"], env)
            raise NotComputable("if without else")
        if k == "Match":
            v = self.ev(e["scrut"], env)
            for a in e["arms"]:
                env2 = dict(env)
                if self.matches(a["pat"], v, env2):
                    if a.get("guard") and not self.ev(a["guard"], env2):
                        continue
                    return self.ev(a["body"], env2)
            raise NotComputable("non-exhaustive match")
        if k == "Struct":
            p = e["res"].get("path", "")
            f = {x["name"]: self.ev(x["e"], env) for x in e["fields"]}
            if p.endswith("ops::range::Range") or p.endswith("range::Range"):
                return ("range", f["start"], f["end"] - 1)
            if p.endswith("RangeInclusive"):
                return ("range", f["start"], f["end"])
            raise NotComputable("struct " + p)
        if k == "MethodCall":
            name = e["name"]
            callee = hir.base_path(e.get("callee") or "")
            recv = self.ev(e["recv"], env)
            if name in ASCII_TABLE and (callee.startswith("core::num::") or "u8" in callee or callee.startswith("core::char")):
                return ASCII_TABLE[name](recv)
            if name == "contains" and isinstance(recv, tuple) and recv[0] == "range":
                v = self.ev(e["args"][0], env)
                return recv[1] <= v <= recv[2]
            if name in ("eq_ignore_ascii_case",) and not isinstance(recv, tuple):
                v = self.ev(e["args"][0], env)
                low = lambda b: b + 32 if 65 <= b <= 90 else b
                return low(recv) == low(v)
            if name in ("to_ascii_uppercase",):
                return recv - 32 if 97 <= recv <= 122 else recv
            if name in ("to_ascii_lowercase",):
                return recv + 32 if 65 <= recv <= 90 else recv
            raise NotComputable("method " + name)
        if k == "Call":
            callee = hir.base_path(e.get("callee") or "")
            if callee.endswith("RangeInclusive::new"):
                a = [self.ev(x, env) for x in e["args"]]
                return ("range", a[0], a[1])
            if self.crate is not None and e.get("callee_local") and self.crate.body(e["callee"]):
                b = self.crate.body(e["callee"])
                args = [self.ev(x, env) for x in e["args"]]
                env2 = {}
                for p, a in zip(b["params"], args):
                    self.bind(p, a, env2)
                return self.ev(b["value"], env2)
            raise NotComputable("call " + callee)
        raise NotComputable("expr " + k)


def denote_closure(closure, crate=None, captured=None, domain=256):
    """Set of bytes (or, with domain=128, ASCII chars) accepted by a `|b| -> bool` closure node; None if not computable."""
    ev = Ev(crate, captured)
    out = set()
    try:
        for b in range(domain):
            env = {}
            if len(closure["params"]) != 1:
                raise NotComputable("arity")
            ev.bind(closure["params"][0], b, env)
            v = ev.ev(closure["body"], env)
            if not isinstance(v, bool):
                raise NotComputable("non-bool result")
            if v:
                out.add(b)
        return frozenset(out)
    except NotComputable as ex:
        return None


def denote_fn(crate, path):
    b = crate.body(path)
    if b is None:
        return None
    fake = {"params": b["params"], "body": b["value"]}
    return denote_closure(fake, crate)


def denote_pred(expr, crate, captured=None):
    """expr: a predicate argument expression - a closure literal or a path to a local fn."""
    e = hir.strip(expr)
    if e.get("k") == "Closure":
        return denote_closure(e, crate, captured)
    if e.get("k") == "Path" and e["res"].get("r") == "Def" and e["res"].get("dk") == "Fn":
        return denote_fn(crate, e["res"]["path"])
    return None


def denote_term(t, ps, crate):
    """Class of a predicate given as a pathsum term: a closure (with its captured literals) or a path to a local fn."""
    if not isinstance(t, tuple) or not t:
        return None
    if t[0] == "closure":
        node = ps.closures.get(t[1])
        cap = {}
        if len(t) > 2:
            cap = {i: v[2] for (i, v) in t[2] if v[0] == "lit" and isinstance(v[2], (int, bool))}
        return denote_closure(node, crate, cap) if node is not None else None
    if t[0] == "fn":
        return denote_fn(crate, t[1])
    return None


def show_set(s):
    if s is None:
        return "not computable"
    if len(s) == 256:
        return "all bytes"
    comp = frozenset(range(256)) - s
    if len(comp) <= 3:
        return "all bytes except {%s}" % ", ".join(map(str, sorted(comp)))
    xs = sorted(s)
    runs = []
    i = 0
    while i < len(xs):
        j = i
        while j + 1 < len(xs) and xs[j + 1] == xs[j] + 1:
            j += 1
        runs.append(str(xs[i]) if i == j else "%d..=%d" % (xs[i], xs[j]))
        i = j + 1
    return "{" + ", ".join(runs) + "}"
