"""roles: which function of the current tree plays which part, found by structure, not by name.

The rules name the private functions of parser.rs (`satisfy`, `whitespace`, `program_mnemonic`, `arguments` ...).  Those
names are not part of the library's interface: a maintainer may rename them or move them to another module without
changing behaviour.  Before the rules see the facts of the library crate, every role is located by its *signature and
place in the call structure* and the fact base is rewritten so that the function carries its canonical path
(`microscpi::parser::<role>`); source locations are untouched, and the mapping is recorded in the evidence.

A role that cannot be located unambiguously is left alone: the rules then fail closed on the missing anchor, exactly
as before.  Identification uses only: return type, parameter types, and which local functions a body mentions."""
import json
import re

P = "microscpi::parser::"


def _refs(value):
    """local paths mentioned in a body (callees and function-valued paths)"""
    out = set()
    stack = [value]
    while stack:
        x = stack.pop()
        if isinstance(x, dict):
            if x.get("k") == "Path":
                r = x.get("res") or {}
                if r.get("r") != "Local" and r.get("path"):
                    out.add(_base(r["path"]))
            c = x.get("callee")
            if isinstance(c, str):
                out.add(_base(c))
            c = x.get("resolved")
            if isinstance(c, str):
                out.add(_base(c))
            stack.extend(x.values())
        elif isinstance(x, list):
            stack.extend(x)
    return out


def _base(p):
    return re.sub(r"::<[^>]*>", "", p)


RES = r"(?:for<'a> )?core::result::Result<\(&(?:'\w+ )?\[u8\], (.*)\), microscpi::parser::ParseError>"


def _ret_payload(ret):
    """payload type T of `Result<(&[u8], T), ParseError>` (direct parser) / of the closure a factory returns"""
    m = re.search(RES, ret)
    return m.group(1) if m else None


def locate(facts):
    """-> {role: actual def path} for the roles that are identified without ambiguity"""
    fns = {}
    for b in facts.get("bodies", []):
        d = b.get("def", "")
        if b.get("kind") != "Fn" or "::{" in d or not d.startswith("microscpi::"):
            continue
        fns[d] = {"ret": b.get("ret", ""), "ptys": [p.get("ty", "") for p in b.get("params", [])], "refs": _refs(b.get("value")), "body": b}
    roles = {}

    def uniq(role, cands):
        cands = sorted(set(cands))
        if len(cands) == 1:
            roles[role] = cands[0]

    direct = {d: f for d, f in fns.items() if f["ret"].startswith("core::result::Result<(&") and len(f["ptys"]) == 1 and f["ptys"][0].startswith("&") and "[u8]" in f["ptys"][0]}
    factory = {d: f for d, f in fns.items() if f["ret"].startswith("impl ") and re.search(r"Fn(Mut|Once)?\(&", f["ret"]) and _ret_payload(f["ret"]) is not None}
    uniq("parse", [d for d, f in fns.items() if "CommandCall" in f["ret"] and f["ret"].startswith("core::result::Result<(&")])
    # combinators
    uniq("satisfy", [d for d, f in factory.items() if _ret_payload(f["ret"]) == "u8" and f["ptys"] and f["ptys"][0] != "u8" and len(f["ptys"]) == 1])
    uniq("tag", [d for d, f in factory.items() if _ret_payload(f["ret"]) == "u8" and f["ptys"] == ["u8"]])
    uniq("take_while", [d for d, f in factory.items() if re.fullmatch(r"&(?:'\w+ )?\[u8\]", _ret_payload(f["ret"]) or "") and len(f["ptys"]) == 1 and not f["ptys"][0].startswith("&")])
    uniq("optional", [d for d, f in factory.items() if (_ret_payload(f["ret"]) or "").startswith("core::option::Option<") and len(f["ptys"]) == 1 and "Node" not in f["ret"]])
    # header parsers: factories `f(root[, path]) -> impl Fn(&[u8]) -> ..` or, uncurried, `f(root[, path], input) -> ..`
    def is_slice(t):
        return t.startswith("&") and "[u8]" in t
    ctxfn = {d: f for d, f in fns.items() if f["ret"].startswith("core::result::Result<(&") and len(f["ptys"]) >= 2 and is_slice(f["ptys"][-1])}
    hdr = {d: f for d, f in factory.items() if "microscpi::tree::Node" in (_ret_payload(f["ret"]) or "")}
    one = [d for d, f in hdr.items() if len(f["ptys"]) == 1]
    two = [d for d, f in hdr.items() if len(f["ptys"]) == 2]
    for d, f in ctxfn.items():
        if "microscpi::tree::Node" in (_ret_payload(f["ret"]) or "") and "CommandCall" not in f["ret"]:
            hdr[d] = f
            (one if len(f["ptys"]) == 2 else two if len(f["ptys"]) == 3 else []).append(d)
    uniq("common_command_program_header", one)
    top = [d for d in two if any(o in hdr[d]["refs"] for o in two if o != d)]
    uniq("command_program_header", top)
    uniq("compound_command_program_header", [d for d in two if d not in top])
    uniq("arguments", [d for d, f in list(factory.items()) + list(ctxfn.items()) if _ret_payload(f["ret"]) == "()" and any("Vec<" in t for t in f["ptys"])])
    # direct parsers, by what mentions them
    pr = roles.get("parse")
    if pr:
        uniq("whitespace", [d for d in direct if d in fns[pr]["refs"] and re.fullmatch(r"&(?:'\w+ )?\[u8\]", _ret_payload(direct[d]["ret"]) or "")])
    ws = roles.get("whitespace")
    if ws:
        uniq("is_whitespace", [d for d, f in fns.items() if d in fns[ws]["refs"] and f["ret"] == "bool" and f["ptys"] == ["u8"]])
    comp, comm = roles.get("compound_command_program_header"), roles.get("common_command_program_header")
    if comp and comm:
        uniq("program_mnemonic", [d for d in direct if d in fns[comp]["refs"] and d in fns[comm]["refs"]])
    if comp:
        uniq("header_separator", [d for d in direct if d in fns[comp]["refs"] and _ret_payload(direct[d]["ret"]) == "()"])
    ar = roles.get("arguments")
    if ar:
        uniq("argument_separator", [d for d in direct if d in fns[ar]["refs"] and _ret_payload(direct[d]["ret"]) == "()"])
        uniq("argument", [d for d in direct if d in fns[ar]["refs"] and "Value<" in (_ret_payload(direct[d]["ret"]) or "")])
    return roles


# Items of the public interface, addressed by their names (which a maintainer cannot change without changing the
# interface) wherever in the crate they are defined: moving `Write` into `response/write.rs` behind a re-export changes
# its definition path, not its meaning.
PUBLIC = {
    "Adapter": "microscpi::interface::Adapter", "Interface": "microscpi::interface::Interface", "ErrorHandler": "microscpi::interface::ErrorHandler",
    "Arbitrary": "microscpi::response::Arbitrary", "Characters": "microscpi::response::Characters", "Response": "microscpi::response::Response",
    "Write": "microscpi::response::Write", "CommandCall": "microscpi::parser::CommandCall", "ParseError": "microscpi::parser::ParseError",
    "Error": "microscpi::error::Error", "ErrorCommands": "microscpi::commands::ErrorCommands", "StandardCommands": "microscpi::commands::StandardCommands",
    "ErrorQueue": "microscpi::error_queue::ErrorQueue", "StaticErrorQueue": "microscpi::error_queue::StaticErrorQueue",
    "Node": "microscpi::tree::Node", "Value": "microscpi::value::Value",
}


def relocated(text):
    """{actual path: canonical path} for the public items found under another module path (and only there)"""
    found = {}
    for m in re.finditer(r"(microscpi::(?:[a-z_0-9]+::)*)([A-Z][A-Za-z0-9_]*)(?![A-Za-z0-9_])", text):
        if m.group(2) in PUBLIC:
            found.setdefault(m.group(2), set()).add(m.group(1) + m.group(2))
    ren = {}
    for name, paths in found.items():
        canon = PUBLIC[name]
        if canon in paths or len(paths) != 1:
            continue
        ren[next(iter(paths))] = canon
    return ren


def unwrap_anonymous_consts(text):
    """`a::b::_::<impl Tr for Ty>::f` -> `<Ty as Tr>::f` and `a::b::_::X` -> `a::b::X` in the text of a fact base"""
    if "::_::" not in text:
        return text
    g = r"[^<>\"]*(?:<[^<>\"]*(?:<[^<>\"]*>[^<>\"]*)*>)?"
    text = re.sub(r"(?:[A-Za-z_][A-Za-z0-9_]*::)+_::<impl (%s) for (%s)>::" % (g, g), lambda m: "<%s as %s>::" % (m.group(2), m.group(1)), text)
    return re.sub(r"((?:[A-Za-z_][A-Za-z0-9_]*::)+)_::", r"\1", text)


ENTRY_POINTS = ("microscpi::interface::Interface::process", "microscpi::interface::Interface::run", "microscpi::interface::Interface::execute")


def delegations(facts):
    """{entry point: sibling method} where the entry point's body is nothing but one (awaited) call of another method of
    the same trait on `self`"""
    import hir
    out = {}
    for b in facts.get("bodies", []):
        d = b.get("def")
        if d not in ENTRY_POINTS:
            continue
        kinds = [x.get("k") for x in hir.walk(b["value"])]
        if any(k not in ("Closure", "Block", "Path", "Await", "MethodCall", "Call", "AddrOf", "Lit") for k in kinds):
            continue
        calls = [x for x in hir.walk(b["value"]) if x.get("k") in ("MethodCall", "Call")]
        if len(calls) != 1:
            continue
        c = _base(calls[0].get("callee") or "")
        if c.startswith("microscpi::interface::Interface::") and c != d and c not in ENTRY_POINTS:
            out[d] = c
    return out


def canonicalise(facts):
    """Rewrite the fact base so that every located role carries its canonical path. -> (facts, {role: actual}) ; the
    facts are returned unchanged when nothing has to be renamed."""
    roles = locate(facts)
    ren = {}
    defs = {b.get("def") for b in facts.get("bodies", [])}
    for role, actual in roles.items():
        canon = P + role
        if actual == canon:
            continue
        if canon in defs:
            continue        # the canonical path is taken by another function: leave everything as it is
        ren[actual] = canon
    text = json.dumps(facts)
    # an entry point of the public interface that only hands its arguments to a sibling method (`process::<N, A>` =
    # `process_with_capacity::<N, N, A>`): the sibling's body is the entry point's behaviour and is analysed as such
    for (entry, worker) in delegations(facts).items():
        text = re.sub(re.escape(entry) + r"(?![A-Za-z0-9_])", entry + "__entry", text)
        text = re.sub(re.escape(worker) + r"(?![A-Za-z0-9_])", entry, text)
        roles["(delegates) " + entry.split("::")[-1]] = worker
    moved = relocated(text)
    for a, c in moved.items():
        ren[a] = c
        roles["(public) " + c.split("::")[-1]] = a
    if not ren and not any(r.startswith("(delegates)") for r in roles):
        return facts, roles
    # longest first, so that a path that extends another is replaced first
    for actual in sorted(ren, key=len, reverse=True):
        text = re.sub(re.escape(actual) + r"(?![A-Za-z0-9_])", ren[actual].replace("\\", "\\\\"), text)
    return json.loads(text), roles
