"""Fourier-Motzkin entailment over conjunctions of linear integer inequalities  sum(c_i x_i) + c >= 0."""
from fractions import Fraction

from linform import Lin


def ge0(l):
    """Lin -> constraint (dict, const) meaning l >= 0"""
    return ({k: Fraction(v) for k, v in l.coeffs.items()}, Fraction(l.const))


def le(a, b):
    return ge0(b - a)


def lt(a, b):
    return ge0(b - a - Lin({}, 1))


def eq(a, b):
    return [ge0(b - a), ge0(a - b)]


def infeasible(cons, limit=4000):
    cons = [(dict(c), k) for c, k in cons]
    while True:
        # trivial contradictions
        rest = []
        for c, k in cons:
            c = {v: x for v, x in c.items() if x != 0}
            if not c:
                if k < 0:
                    return True
                continue
            rest.append((c, k))
        cons = rest
        if not cons:
            return False
        # pick the variable with the fewest pos*neg combinations
        vars_ = {}
        for c, k in cons:
            for v, x in c.items():
                p, n = vars_.get(v, (0, 0))
                vars_[v] = (p + (x > 0), n + (x < 0))
        v = min(vars_, key=lambda z: (vars_[z][0] * vars_[z][1], repr(z)))
        pos = [(c, k) for c, k in cons if c.get(v, 0) > 0]
        neg = [(c, k) for c, k in cons if c.get(v, 0) < 0]
        new = [(c, k) for c, k in cons if c.get(v, 0) == 0]
        for (cp, kp) in pos:
            for (cn, kn) in neg:
                a, b = cp[v], -cn[v]
                c = {}
                for z, x in cp.items():
                    if z != v:
                        c[z] = c.get(z, 0) + x * b
                for z, x in cn.items():
                    if z != v:
                        c[z] = c.get(z, 0) + x * a
                new.append((c, kp * b + kn * a))
        if len(new) > limit:
            return False  # give up: not proved
        cons = new


def entails(facts, goal):
    """facts: list of constraints; goal: constraint. Integer semantics: not(g >= 0)  <=>  -g - 1 >= 0."""
    c, k = goal
    neg = ({v: -x for v, x in c.items()}, -k - 1)
    return infeasible(list(facts) + [neg])
